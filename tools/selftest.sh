#!/bin/bash
# Differential self-test of the executor's library models: symbolic runs whose sampled witness
# paths are replayed natively and compared observation by observation.
cd "$(dirname "$0")/../engine" || exit 2
export GOFLAGS=-mod=mod GOPROXY=off GOSUMDB=off GOTOOLCHAIN=local
go build -o symgo . || exit 2
bad=0
for r in $(seq 0 21); do
  out=$(./symgo run -dir mux -entry ZZSelfRegexp -n $((r*10+3)) -native 400 2>&1)
  echo "regexp rule $r: $(echo "$out" | grep -o 'paths=[0-9]*') $(echo "$out" | grep 'native validation')"
  echo "$out" | grep -q "0 mismatches" || { bad=1; echo "$out" | grep "MISMATCH\|ENGINE" | head -3 | cut -c1-300; }
  echo "$out" | grep -q "VIOLATION\|ENGINE ERRORS" && { bad=1; echo "$out" | grep "VIOLATION\|ENGINE ERRORS" | head -3 | cut -c1-300; }
done
for e in "ZZSelfStrings 3" "ZZSelfRunes 3" "ZZSelfRunes 4" "ZZSelfUnicode 3" "ZZSelfMisc 1" "ZZSelfTable 3"; do set -- $e
  out=$(./symgo run -dir mux -entry $1 -n $2 -native 600 2>&1)
  echo "$1($2): $(echo "$out" | grep -o 'paths=[0-9]*') $(echo "$out" | grep 'native validation')"
  echo "$out" | grep -q "0 mismatches" || { bad=1; echo "$out" | grep "MISMATCH\|ENGINE" | head -3 | cut -c1-300; }
  echo "$out" | grep -q "VIOLATION\|ENGINE ERRORS" && { bad=1; echo "$out" | grep "VIOLATION\|ENGINE ERRORS" | head -3 | cut -c1-300; }
done
out=$(./symgo run -dir types -entry ZZSelfAtomic -n 0 -native 30 2>&1); echo "atomics: $(echo "$out" | grep 'native validation')"; echo "$out" | grep -q "0 mismatches" || bad=1
exit $bad
