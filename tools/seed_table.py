#!/usr/bin/env python3
# tools/seed_table.py <prefix>  - markdown table of the seeded changes whose directory starts with <prefix> (from their meta.json)
import json, sys, glob, os
rows = []
for d in sorted(glob.glob(os.path.join(os.path.dirname(__file__), "..", "seeded", sys.argv[1] + "*"))):
    m = json.load(open(os.path.join(d, "meta.json")))
    esc = lambda s: s.replace("|", "\\|")
    rows.append("| %s | %s | %s | %s |" % (os.path.basename(d), esc(m["change"]), esc(m["needs_to_manifest"]), esc(m["result"])))
print("| seeded change | what it does | what it needs to manifest | result |\n|---|---|---|---|")
print("\n".join(rows))
