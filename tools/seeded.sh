#!/bin/bash
# tools/seeded.sh confirm <dir>   - confirm a seeded change: applies, existing tests pass, demo fails with it and passes without
# tools/seeded.sh check   <dir> [tier] - run the checks named in <dir>/meta.json (or $CHECKS) against a scratch worktree with the patch applied
# <dir> holds patch.diff, demo_test.go (first line: "// place at: <relative path> (package x)"), meta.json
set -u
export GOFLAGS=-mod=mod GOPROXY=off GOSUMDB=off GOTOOLCHAIN=local
cmd="$1"; dir="$(cd "$2" && pwd)"; tier="${3:-quick}"
wt="/tmp/sd-$(basename "$dir")-$$"
git -C /repo worktree add --detach -f "$wt" HEAD >/dev/null 2>&1 || { echo "cannot create worktree"; exit 2; }
trap 'git -C /repo worktree remove --force "$wt" >/dev/null 2>&1' EXIT
place=$(head -1 "$dir/demo_test.go" | sed -n 's/^\/\/ place at: *\([^ ]*\).*/\1/p')
case "$cmd" in
confirm)
  [ -n "$place" ] || { echo "demo_test.go lacks a '// place at:' line"; exit 2; }
  cp "$dir/demo_test.go" "$wt/$place"
  pkg="./$(dirname "$place")"
  race=""; sed -n 2p "$dir/demo_test.go" | grep -q "run with: -race" && race="-race"
  (cd "$wt" && go test $race -vet=off -count=1 "$pkg" >/tmp/sd-clean.$$ 2>&1) && clean=pass || clean=FAIL
  (cd "$wt" && git apply "$dir/patch.diff") || { echo "patch does not apply"; exit 2; }
  (cd "$wt" && go test $race -vet=off -count=1 "$pkg" >/tmp/sd-mut.$$ 2>&1) && mut=pass || mut=FAIL
  rm "$wt/$place"
  (cd "$wt" && go build ./... >/dev/null 2>&1 && go test -vet=off -count=1 ./... >/tmp/sd-suite.$$ 2>&1) && suite=pass || suite=FAIL
  echo "demo on clean tree: $clean (want pass); demo with change: $mut (want FAIL); existing suite with change: $suite (want pass)"
  rm -f /tmp/sd-clean.$$ /tmp/sd-mut.$$ /tmp/sd-suite.$$
  [ "$clean" = pass ] && [ "$mut" = FAIL ] && [ "$suite" = pass ]
  ;;
check)
  (cd "$wt" && git apply "$dir/patch.diff") || { echo "patch does not apply"; exit 2; }
  checks="${CHECKS:-$(python3 -c "import json,sys;print(' '.join(json.load(open('$dir/meta.json')).get('checks',[json.load(open('$dir/meta.json'))['property']])))")}"
  rc=0
  for p in $checks; do
    out=$(cd /verif && VERIF_REPO="$wt" VERIF_EVIDENCE_DIR=/tmp/sd-evidence ./check "$p" "$tier" 2>&1); e=$?
    echo "$p exit=$e: $(echo "$out" | grep -c '^VIOLATION') violation lines; labels: $(echo "$out" | grep -o 'assertion "[^"]*"' | sort | uniq -c | sort -rn | head -3 | tr '\n' ';')"
    echo "$out" | grep INCONCLUSIVE | head -3 | cut -c1-220 | sed 's/^/    /'
    [ $e -eq 1 ] && rc=1
  done
  exit $((1-rc))   # 0 = caught
  ;;
esac
