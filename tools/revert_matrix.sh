#!/bin/bash
# For every "fix:" commit in /repo: reverse-apply it in a scratch worktree and run the
# checks named for it; records which assertion labels fire (the detection matrix of DESIGN.md).
# usage: tools/revert_matrix.sh > matrix.txt   (needs VERIF_EVIDENCE_DIR to keep /verif/evidence untouched)
set -u
cd /verif
declare -A CHECKS=(
 [49aac0b]="C01 C02" [46effb7]="C01 C02" [d94fca2]="C01 C05" [3c63198]="C03 C05 C14" [b80009f]="C04 C07" [5c3fc35]="C04"
 [88b95bc]="C04" [005540b]="C04 C03" [ad99535]="C08" [7a2c568]="C17" [01fe4ef]="C10" [8d10ba4]="C10" [8893b2e]="C10" [bce29ef]="C10"
 [61cd012]="C12" [3d202df]="C12" [8881a79]="C11" [d8da138]="C13" [00bd561]="C14" [daf9473]="C18" [5afaa25]="C07" [e568f70]="C06"
)
for c in $(git -C /repo log --format=%h --grep '^fix:' ); do
  wt=/tmp/mx-$c
  git -C /repo worktree add --detach -f $wt HEAD >/dev/null 2>&1
  if ! (cd $wt && git show $c | git apply -R 2>/dev/null); then
    echo "== $c: revert does not apply cleanly on HEAD (later fix touches the same lines)"; git -C /repo worktree remove --force $wt; continue
  fi
  echo "== $c $(git -C /repo log --format=%s -1 $c)"
  for p in ${CHECKS[$c]:-}; do
    out=$(VERIF_REPO=$wt VERIF_EVIDENCE_DIR=/tmp/mx-evidence ./check $p quick 2>&1)
    echo "   $p exit=$? $(echo "$out" | grep -c '^VIOLATION') violations: $(echo "$out" | grep -o 'assertion "[^"]*"' | sort | uniq -c | sort -rn | head -4 | tr '\n' ';')"
    echo "$out" | grep INCONCLUSIVE | head -2 | sed 's/^/      /' | cut -c1-200
  done
  git -C /repo worktree remove --force $wt
done
