#!/usr/bin/env python3
"""Regenerates /verif/MANIFEST.json from the table below (run after adding a check)."""
import json, subprocess

TECH = "bounded symbolic execution of /repo's go/ssa + z3 (solver-decided assertions), native replay of models"
NOTE = ("Trusted base: go/ssa (x/tools v0.29.0) translation of the current source; the symgo executor (validated on every run by replaying "
        "sampled witness paths natively and comparing observations); z3 4.8.12 (sampled queries re-discharged with z3 5.1.0 and cvc5); the stubs "
        "listed in the evidence file; the Go toolchain for native replay. Verdicts are bounded: nothing is claimed outside the bounds in the evidence file.")

CHECKS = {
 "C01": "For 8 route-table histories, every request path up to the length bound (all byte values) and every method (names, empty, arbitrary 3-byte strings) is executed symbolically through Router.ServeHTTP; at the CallFunc the reported pattern must be live in an independent table model, the handler must be the one registered for (pattern, method), the path must equal the pattern with the reported parameters substituted (own tokenizer), every value must satisfy its rule over its whole length, and the parameter key set must be exactly the pattern's capturing names; 404 must carry no parameters. z3 decides each assertion for all inputs of the path class at once.",
 "C02": "The outcome of Router.ServeHTTP on a symbolic path is compared, for all inputs at once, with the set of admissible outcomes of a reference resolver that works on the pattern strings only (literal > interceptor > regexp > named, shortest capture up to the shared literal suffix, fall back, never widen) on 16 add-only tables in two registration orders, including the >=5-sibling first-byte index.",
 "C03": "Every history (bounded length) of Handle/Remove/Clean/Prefix.Clean/Resource.Clean over four scenarios is explored by forking on operation selectors; after the last step Routes() is compared with a table model, every pattern's witness request with 5 methods is compared with the documented resolution over the live table, and the same symbolic request is served before and after the step (2-safety: a removal must not change a request that was dispatched to a route the step does not name).",
 "C04": "Every bounded history over two operation alphabets built to split nodes after methods were registered, with and without WithTrace and in both map iteration orders: for every live pattern the Allow header of OPTIONS and of 405 (read through the node the builder captured), Node().Methods()/AllowHeader() and Routes() must equal the documented set, for every request reaching the route (symbolic parameter values); OPTIONS * is checked on every state including the brand-new router. Mostly selector-driven: an exhaustive bounded exploration of the real SSA with small solver queries.",
 "C05": "Every potential runtime fault (index, slice bound, nil dereference, nil map write, failed type assertion, nil call) on every symbolic path is raised by the executor and reported if it can escape: Router.ServeHTTP with arbitrary path and method bytes on 8 table histories, Group.ServeHTTP with Hosts/version/And matchers, Hosts.Match, the path-version matcher, and CheckSyntax/URL/Router.URL/Handle on every pattern string up to the bound (Handle must register or panic with an error value and agree with CheckSyntax).",
 "C08": "HEAD vs GET with the handler's write sizes as symbolic 64-bit ints: z3 decides that Content-Length equals the sum of the sizes written, that no body byte reaches the client and that status and headers equal GET's; all bounded histories of adding/removing GET/POST/DELETE with removal lists containing HEAD, OPTIONS and the empty string against the table model; Handle with every method string up to the bound.",
 "C17": "One Handle call (pattern pool incl. name/'-'/rule variants and malformed patterns x method lists incl. reserved, duplicate and arbitrary method strings) on four tables; for a rejected call Routes(), all Allow headers and the outcome of the same symbolic request are compared before/after (2-safety); the accept/reject clauses are checked against an independent shape comparison.",
}
NA = {}

props = [json.loads(l) for l in open('/verif/properties.jsonl')]
checks, na = [], []
for p in props:
    i = p['id']
    if i in CHECKS:
        checks.append({
            "property_id": i,
            "quick_cmd": "./check %s quick" % i,
            "thorough_cmd": "./check %s thorough" % i,
            "evidence_file": "/verif/evidence/%s.json" % i,
            "replay_cmd_template": "./check %s --replay {path}" % i,
            "engine": "symgo",
            "level_claimed": {"category": "model_checking", "text": CHECKS[i], "design_ref": "DESIGN.md section 3 (%s)" % i},
            "level_note": NOTE,
            "technique": TECH,
        })
    else:
        na.append({"property_id": i, "reason": NA.get(i, "check under construction in this session (engine committed, harness not yet registered)")})
m = {
 "version": 1,
 "setup_cmd": "cd /verif/engine && GOFLAGS=-mod=mod GOPROXY=off GOSUMDB=off GOTOOLCHAIN=local go build -o symgo .",
 "hooks": {"guard": "verif", "enable": "harness files (/verif/harness) are injected into /repo's packages with a build overlay and compiled with -tags verif, both by the symbolic executor (go/packages Overlay) and by the native replay (go test -overlay); no file in /repo carries hooks",
           "baseline_off_cmd": "cd /repo && GOFLAGS=-mod=mod GOPROXY=off go test -vet=off -count=1 ./...", "source_commits": [], "add_only": True},
 "engines": [{"name": "symgo", "path": "/verif/engine", "serves_properties": sorted(CHECKS), "kind_free_text": "bounded symbolic execution of go/ssa built from /repo's working tree on every run; z3 decides path feasibility and every assertion; models are replayed natively before anything is reported"}],
 "checks": checks,
 "not_applicable": na,
 "notes": "exit 0 = held within the stated bounds; exit 1 + VIOLATION line = natively reproduced violation; exit 2 + INCONCLUSIVE = engine limit, solver unknown, vacuity guard or validation mismatch (never a success claim). Known findings: /verif/known_findings.txt.",
}
json.dump(m, open('/verif/MANIFEST.json', 'w'), indent=1)
print(len(checks), "checks,", len(na), "not applicable")
