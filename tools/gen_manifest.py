#!/usr/bin/env python3
"""Regenerates /verif/MANIFEST.json from the table below (run after adding a check)."""
import json, subprocess

TECH = "bounded symbolic execution of /repo's go/ssa + z3 (solver-decided assertions), native replay of models"
NOTE = ("Trusted base: go/ssa (x/tools v0.29.0) translation of the current source; the symgo executor (validated on every run by replaying "
        "sampled witness paths natively and comparing observations); z3 4.8.12 (sampled queries re-discharged with z3 5.1.0 and cvc5); the stubs "
        "listed in the evidence file; the Go toolchain for native replay. Verdicts are bounded: nothing is claimed outside the bounds in the evidence file.")

CHECKS = {
 "C01": "For 25 route-table histories (incl. non-ASCII literals, ignored parameters, >=5-sibling shapes, removals and cleans), every request path up to the length bound (all byte values) and every method (names, empty, arbitrary 3-byte strings) is executed symbolically through Router.ServeHTTP; at the CallFunc the reported pattern must be live in an independent table model, the handler must be the one registered for (pattern, method), the path must equal the pattern with the reported parameters substituted (own tokenizer), every value must satisfy its rule over its whole length, and the parameter key set must be exactly the pattern's capturing names; 404 must carry no parameters. z3 decides each assertion for all inputs of the path class at once.",
 "C02": "The outcome of Router.ServeHTTP on a symbolic path is compared, for all inputs at once, with the set of admissible outcomes of a reference resolver that works on the pattern strings only (literal > interceptor > regexp > named, shortest capture up to the shared literal suffix, fall back, never widen) on 16 add-only tables in two registration orders, including the >=5-sibling first-byte index.",
 "C03": "Every history (bounded length) of Handle/Remove/Clean/Prefix.Clean/Resource.Clean over ten scenarios is explored by forking on operation selectors; before every step and after the last one Routes() and strict URL building of every live and removed pattern are compared with a table model, every pattern's witness request with 5 methods is compared with the documented resolution over the live table, and the same symbolic request is served before and after the step (2-safety: a removal must not change a request that was dispatched to a route the step does not name).",
 "C04": "Every bounded history over four operation alphabets built to split nodes after methods were registered, with and without WithTrace and in both map iteration orders: for every live pattern the Allow header of OPTIONS and of 405 (read through the node the builder captured), Node().Methods()/AllowHeader() and Routes() must equal the documented set, for every request reaching the route (symbolic parameter values); OPTIONS * is checked on every state including the brand-new router. Mostly selector-driven: an exhaustive bounded exploration of the real SSA with small solver queries.",
 "C05": "Every potential runtime fault (index, slice bound, nil dereference, nil map write, failed type assertion, nil call) on every symbolic path is raised by the executor and reported if it can escape: Router.ServeHTTP with arbitrary path and method bytes on 8 table histories, Group.ServeHTTP with Hosts/version/And matchers, Hosts.Match, the path-version matcher, and CheckSyntax/URL/Router.URL/Handle on every pattern string up to the bound (Handle must register or panic with an error value and agree with CheckSyntax).",
 "C08": "HEAD vs GET with the handler's write sizes as symbolic 64-bit ints: z3 decides that Content-Length equals the sum of the sizes written, that no body byte reaches the client and that status and headers equal GET's - also when the handler deletes or overwrites Content-Length between writes or first sends an informational 1xx response; all bounded histories of adding/removing GET/POST/DELETE with removal lists containing HEAD, OPTIONS and the empty string against the table model; Handle with every method string up to the bound.",
 "C17": "One Handle call (pattern pool incl. name/'-'/rule variants and malformed patterns x method lists incl. reserved, duplicate and arbitrary method strings) on five tables (optionally after an earlier rejected call); for a rejected call Routes(), all Allow headers and the outcome of the same symbolic request are compared before/after (2-safety); the accept/reject clauses are checked against an independent shape comparison.",
 "C06": "Router with WithLock(true): writer x reader pairs (and triples) run as logical threads inside the symbolic executor; the schedule is a symbolic choice taken at every lock operation, so all interleavings at synchronisation granularity are explored, and a vector-clock happens-before monitor watches every heap access the interpreted mux code makes (field/element granularity, whole-map granularity for maps): two conflicting accesses unordered by happens-before are a data race. Each response must be admissible for some sequential state. Races are confirmed natively under go test -race before they are reported.",
 "C07": "Sequential isolation: a brand-new router's answers are compared before and after every bounded sequence of operations on other routers, a Hosts matcher and a Group; pooled contexts: consecutive requests with symbolic paths must each see exactly their own parameters (C01 oracle); concurrency: distinct instances mutated in parallel and parallel requests on a quiescent router (with/without WithLock) run as logical threads under the happens-before monitor.",
 "C09": "Every bounded program of Use/Handle/Prefix/nested Prefix/Resource/Any calls (and Group.Use/New/Add programs), with and without WithTrace, both map iteration orders; then every handler kind of every route is invoked and its middleware chain (a value carried by the handler type), the factory arguments and the number of factory invocations are compared with the documented onion order computed from the program text. No data dimension: exhaustive bounded exploration of the real SSA.",
 "C10": "URL building with symbolic parameter values: mux.URL / Router.URL must equal the independent tokenizer's substitution and fail iff malformed or a key is missing; strict mode must additionally fail unless the pattern is a live route and every value matches its rule over its whole length (z3 finds e.g. a value with a non-matching prefix); round trip: every dispatched symbolic path is rebuilt from its captured parameters.",
 "C11": "CORS safety half against a reference decision table with its own header-list parser: Allow-Origin only '*' (if configured) or the request's own listed Origin, credentials only with an echoed listed origin, nothing on deny/404/405/unserved preflight/disallowed requested header; Origin, Access-Control-Request-Method/-Headers and max-age are symbolic.",
 "C12": "CORS completeness half on the same product: allowed origins get Allow-Origin/Credentials/Expose-Headers exactly as configured, accepted preflights additionally Allow-Methods = the route's Allow set, Allow-Headers and Max-Age (a symbolic int compared through strconv.Itoa), non-preflights never carry preflight-only headers, Vary names Origin / Access-Control-Request-Method / Access-Control-Request-Headers.",
 "C13": "Groups of routers with path-version/Hosts/header-version/And/Or/nil matchers: for every symbolic Host and path the observed router, handler, parameters and request path are compared with independent reference matchers evaluated on the original request (first accepting router; rejected And/Or members leave no trace); group 404 through the group's middlewares; Remove and duplicate names.",
 "C14": "Hosts.Match on every symbolic ASCII Host after every bounded Add/Delete/RegisterInterceptor history, compared with an own normaliser plus the C02 reference resolver over the lower-cased live domains, including the reported parameters.",
 "C15": "Path-version matcher with symbolic version strings and symbolic path against a reference (normalise, first listed prefix wins, strip exactly the segment, record '/<version>', untouched on reject); header-version matcher on a table of Accept headers and on 'a/b; key=' + symbolic token bytes.",
 "C16": "Every sequence of requests of 7 kinds, panicking or not with a symbolic panic value, on Router/Group with and without a recovery option: the recovery function gets exactly that value exactly once, nothing escapes, later requests are served normally; without the option the same value reaches the caller.",
 "C18": "TRACE with every symbolic path on 25 table histories with and without WithTrace (handler, exact middleware chain, Allow sets, manual registration), and the bundled Trace helper with a nondeterministic request dump: status, Content-Type in the header snapshot taken at WriteHeader, escaped body, error passthrough.",
 "C19": "Every bounded program of facade calls is run through Prefix/Resource objects on one router and as its mechanical desugaring into Router calls on another; Routes(), the outcome of the same symbolic request (handler, pattern, parameters, middleware chain, status, Allow) and the URL methods must agree, and Prefix.Clean must remove exactly the model's patterns with that prefix.",
 "C20": "Params accessors after every bounded Set/Delete/Reset/Destroy+NewContext sequence with symbolic keys and values against a shadow list; Int/Uint/Bool (+Must*) against strconv executed symbolically from its own SSA for every string up to the bound plus edge-case seeds; Float on seeds; a context from the pool starts empty.",
}
NA = {}

props = [json.loads(l) for l in open('/verif/properties.jsonl')]
checks, na = [], []
for p in props:
    i = p['id']
    if i in CHECKS:
        checks.append({
            "property_id": i,
            "quick_cmd": "./check %s quick" % i,
            "thorough_cmd": "./check %s thorough" % i,
            "evidence_file": "/verif/evidence/%s.json" % i,
            "replay_cmd_template": "./check %s --replay {path}" % i,
            "engine": "symgo",
            "level_claimed": {"category": "model_checking", "text": CHECKS[i], "design_ref": "DESIGN.md section 3 (%s)" % i},
            "level_note": NOTE,
            "technique": TECH,
        })
    else:
        na.append({"property_id": i, "reason": NA.get(i, "check under construction in this session (engine committed, harness not yet registered)")})
m = {
 "version": 1,
 "setup_cmd": "cd /verif/engine && GOFLAGS=-mod=mod GOPROXY=off GOSUMDB=off GOTOOLCHAIN=local go build -o symgo .",
 "hooks": {"guard": "verif", "enable": "harness files (/verif/harness) are injected into /repo's packages with a build overlay and compiled with -tags verif, both by the symbolic executor (go/packages Overlay) and by the native replay (go test -overlay); no file in /repo carries hooks",
           "baseline_off_cmd": "cd /repo && GOFLAGS=-mod=mod GOPROXY=off go test -vet=off -count=1 ./...", "source_commits": [], "add_only": True},
 "engines": [{"name": "symgo", "path": "/verif/engine", "serves_properties": sorted(CHECKS), "kind_free_text": "bounded symbolic execution of go/ssa built from /repo's working tree on every run; z3 decides path feasibility and every assertion; models are replayed natively before anything is reported"}],
 "checks": checks,
 "not_applicable": na,
 "notes": "exit 0 = held within the stated bounds; exit 1 + VIOLATION line = natively reproduced violation; exit 2 + INCONCLUSIVE = engine limit, solver unknown, vacuity guard or validation mismatch (never a success claim). Known findings: /verif/known_findings.txt.",
}
json.dump(m, open('/verif/MANIFEST.json', 'w'), indent=1)
print(len(checks), "checks,", len(na), "not applicable")
