//go:build verif

package mux

import (
	zzv "github.com/issue9/mux/v9/internal/zzverif"
)

// ---- C10: reverse URL building ----

type zzC10Pat struct {
	p         string
	malformed bool
	live      bool
	keys      []string // keys offered for malformed patterns (the tokenizer is for well-formed ones)
}

var zzC10Pool = []zzC10Pat{
	{p: "/p/{id:\\d+}/e", live: true},
	{p: "/n/{a}/{b}", live: true},
	{p: "/i/{n:digit}/x", live: true},
	{p: "/w/{s:word}", live: true},
	{p: "/l/it", live: true},
	{p: "/m/{-g}/t", live: true},
	{p: "/f/{r:[a-c]+}.h", live: true},
	{p: "/q/{id:\\d+}", live: true},     // a regexp parameter that ends the pattern (value + suffix may be empty)
	{p: "/s"},                           // its methods were removed by name; the node stays because /s/j lives below it
	{p: "/p/a"},                         // exists only as an inner node of the tree (between /p/au and /p/ab)
	{p: "/zz/{q}"},                      // never registered
	{p: "/i/{n:digit}"},                 // prefix of a live route
	{p: "/z/{g:a|ab}/f", live: true},    // an alternation whose first branch is a prefix of the second, then a literal
	{p: "/y/{l:[a-c]+?}.e", live: true}, // a lazy quantifier in front of a literal suffix
	{p: "/d/{--k}", live: true},         // an ignored parameter whose name starts with '-'
	{p: "/{a}/{b}/{a}", malformed: true, keys: []string{"a", "b"}}, // a repeated name that is not adjacent
	{p: "/{}", malformed: true, keys: []string{"a"}},
	{p: "/{a}{b}", malformed: true, keys: []string{"a", "b"}},
	{p: "/{a}/{a}", malformed: true, keys: []string{"a"}},
	{p: "/r/{z:[}", malformed: true, keys: []string{"z"}},
	{p: "/{a:\\d+}{b}", malformed: true, keys: []string{"a", "b"}},
	{p: "/{a:digit}{b}", malformed: true, keys: []string{"a", "b"}},
}

func zzC10Router(domain string) *Router[*hnd] {
	var r *Router[*hnd]
	if domain != "" {
		r = zzNewRouter("r", WithURLDomain(domain))
	} else {
		r = zzNewRouter("r")
	}
	id := 0
	for _, c := range zzC10Pool {
		if c.live {
			id++
			r.Handle(c.p, &hnd{id: id}, nil, "GET")
		}
	}
	r.Handle("/p/au", &hnd{id: 90}, nil, "GET")
	r.Handle("/p/ab", &hnd{id: 91}, nil, "GET")
	r.Handle("/s", &hnd{id: 92}, nil, "GET")
	r.Handle("/s/j", &hnd{id: 93}, nil, "GET")
	r.Remove("/s", "GET")
	return r
}

// ZZC10(n): n = domainVariant*100 + max value length.
func ZZC10(n int) {
	domain, wantDomain := "", ""
	switch n / 100 {
	case 1:
		domain, wantDomain = "https://h.co", "https://h.co"
	case 2:
		domain, wantDomain = "https://h.co/", "https://h.co"
	}
	r := zzC10Router(domain)
	c := zzC10Pool[zzv.Choice("pat", len(zzC10Pool))]

	// the params map: each key of the pattern present or not, arbitrary values, an optional extra key
	params := map[string]string{}
	var keys []string
	var rules []string
	if c.malformed {
		keys = c.keys
	} else {
		for _, t := range zzTokenize(c.p) {
			if t.param {
				keys = append(keys, t.name)
				rules = append(rules, t.rule)
			}
		}
	}
	missing := false
	for _, k := range keys {
		if zzv.Choice("has", 2) == 1 {
			params[k] = zzv.Bytes("v", n%100)
		} else {
			missing = true
		}
	}
	if zzv.Choice("extra", 2) == 1 {
		params["extra"] = "1"
	}

	// expected substitution (own tokenizer) and validity of every value
	subst, valid := "", true
	if !c.malformed {
		i := 0
		for _, t := range zzTokenize(c.p) {
			if !t.param {
				subst += t.lit
				continue
			}
			v, ok := params[t.name]
			if ok {
				subst += v
				if !zzValueOK(rules[i], v) {
					valid = false
				}
			}
			i++
		}
	}

	if len(params) > 0 {
		zzv.Cover("non-empty-params")
		got, err := URL(c.p, params)
		wantErr := c.malformed || missing
		zzv.Assert((err != nil) == wantErr, "URL:error-iff-malformed-or-missing")
		if !wantErr {
			zzv.Assert(got == subst, "URL:not-the-plain-substitution")
		}
		got, err = r.URL(false, c.p, params)
		zzv.Assert((err != nil) == wantErr, "Router.URL:error-iff-malformed-or-missing")
		if !wantErr {
			zzv.Assert(got == wantDomain+subst, "Router.URL:not-domain-plus-substitution")
		}
		zzv.Obs("nonstrict-err", err != nil)
	}

	// strict mode, also with empty params
	got, err := r.URL(true, c.p, params)
	wantErr := c.malformed || !c.live || missing || !valid
	zzv.Obs("strict-err", err != nil)
	if wantErr {
		zzv.Cover("strict-must-fail")
		zzv.Assert(err != nil, "strict:accepts-a-dead-pattern-missing-param-or-invalid-value")
	} else {
		zzv.Cover("strict-must-succeed")
		zzv.Assert(err == nil, "strict:rejects-a-valid-call")
		zzv.Assert(got == wantDomain+subst, "strict:not-domain-plus-substitution")
	}
}

// ZZC10RT(n): dispatch a symbolic path (<= n bytes), rebuild it from the captured parameters.
func ZZC10RT(n int) {
	r := zzC10Router("")
	path := zzv.Bytes("p", n)
	o, _ := zzServe(r, zzReq("GET", path))
	if o.id <= 0 {
		return
	}
	for _, t := range zzTokenize(o.pattern) {
		if t.param && t.ignore {
			return
		}
	}
	zzv.Cover("round-trip")
	params := map[string]string{}
	o.params.Range(func(k, v string) { params[k] = v })
	if len(params) == 0 {
		zzv.Assert(o.pattern == path, "round-trip:literal-route-differs-from-path")
		return
	}
	zzv.Cover("round-trip-with-params")
	got, err := URL(o.pattern, params)
	zzv.Assert(err == nil && got == path, "round-trip:URL-of-captured-params-is-not-the-request-path")
	got, err = r.URL(true, o.pattern, params)
	zzv.Assert(err == nil && got == path, "round-trip:strict-URL-of-captured-params-is-not-the-request-path")
}
