//go:build verif

package mux

import (
	"net/http"
	"strconv"

	zzv "github.com/issue9/mux/v9/internal/zzverif"
	"github.com/issue9/mux/v9/types"
)

// ---- C08: automatic HEAD and OPTIONS ----

// zzBeh is a handler behaviour: what the GET handler does with its ResponseWriter.
type zzBeh struct {
	nwrites  int
	sizes    [3]int
	explicit bool
	status   int
	hdrs     int // number of headers set before anything is sent (0..2)
	mid      int // between two writes: 0 nothing, 1 delete Content-Length, 2 overwrite Content-Length
}

func (b *zzBeh) run(w http.ResponseWriter) {
	if b.hdrs > 0 {
		w.Header().Set("X-A", "1")
	}
	if b.hdrs > 1 {
		w.Header().Add("X-B", "2")
		w.Header().Add("X-B", "3")
	}
	if b.explicit {
		w.WriteHeader(b.status)
	}
	for i := 0; i < b.nwrites; i++ {
		w.Write(zzv.Blob(b.sizes[i]))
		if i+1 < b.nwrites { // a mutation of the length header that a later write must repair
			switch b.mid {
			case 1:
				w.Header().Del("Content-Length")
			case 2:
				w.Header().Set("Content-Length", "1")
			}
		}
	}
}

var zzBehNow *zzBeh

// zzCallBeh: like zzCall, but route handlers run the current behaviour.
func zzCallBeh(w http.ResponseWriter, r *http.Request, rt types.Route, h *hnd) {
	if h.id > 0 && zzBehNow != nil {
		zzO.calls++
		zzO.id = h.id
		zzBehNow.run(w)
		return
	}
	zzCall(w, r, rt, h)
}

func zzFinish(w *recW) {
	if !w.sent { // net/http sends the header when the handler returns
		w.WriteHeader(200)
	}
}

func zzHdr(h http.Header, k string) string {
	s := ""
	for _, v := range h[k] {
		s += v + ";"
	}
	return s
}

// ZZC08Head(n): HEAD vs GET for every handler behaviour with <= n writes.
func ZZC08Head(n int) {
	r := NewRouter[*hnd]("r", zzCallBeh, &hnd{id: id404}, zzB405, zzBOpt)
	r.Handle("/g/{x}", &hnd{id: 7}, nil, "GET", "POST")
	b := &zzBeh{}
	b.nwrites = zzv.Choice("nw", n+1)
	total := 0
	for i := 0; i < b.nwrites; i++ {
		b.sizes[i] = zzv.Int("size")
		zzv.Assume(b.sizes[i] >= 0 && b.sizes[i] <= 300000)
		total += b.sizes[i]
	}
	b.explicit = zzv.Choice("explicit", 2) == 1
	if b.explicit {
		b.status = zzv.Int("status")
		zzv.Assume(b.status >= 100 && b.status <= 599)
	}
	b.hdrs = zzv.Choice("hdrs", 3)
	if b.nwrites > 1 && !b.explicit {
		b.mid = zzv.Choice("mid", 3)
	}
	zzBehNow = b
	path := "/g/" + zzv.Bytes("x", 2)

	og := &zzObs{}
	zzO = og
	wg := newW()
	wg.info = true
	r.ServeHTTP(wg, zzReq("GET", path))
	zzFinish(wg)

	oh := &zzObs{}
	zzO = oh
	wh := newW()
	wh.info = true
	r.ServeHTTP(wh, zzReq("HEAD", path))
	zzFinish(wh)
	zzBehNow = nil

	if og.id != 7 { // the path did not reach the route (value contains '/'): HEAD must agree
		zzv.Assert(oh.id == og.id || (og.id == id405 && oh.id == id405), "head:dispatch-differs-from-GET")
		return
	}
	zzv.Cover("head-vs-get")
	zzv.Obs("status", wg.status)
	zzv.Assert(oh.id == 7 && oh.calls == 1, "head:GET-handler-not-run-exactly-once")
	zzv.Assert(wh.n == 0, "head:body-bytes-reached-the-client")
	zzv.Assert(wg.n == total, "get:body-bytes-lost")
	zzv.Assert(wh.status == wg.status, "head:status-differs-from-GET")
	for _, k := range []string{"X-A", "X-B", "Allow", "Content-Type"} {
		zzv.Assert(zzHdr(wh.sentHdr, k) == zzHdr(wg.sentHdr, k), "head:header-differs-from-GET")
	}
	// an informational status (1xx other than 101) is not the response header: the handler
	// has still not sent the header itself
	implicit := !b.explicit || (b.status <= 199 && b.status != 101)
	zzv.Assert(wh.infos == wg.infos, "head:informational-responses-differ-from-GET")
	if implicit && b.nwrites > 0 {
		zzv.Cover("content-length")
		zzv.Assert(zzHdr(wh.sentHdr, "Content-Length") == strconv.Itoa(total)+";", "head:content-length-is-not-the-number-of-bytes-written")
	}
	if implicit && b.nwrites == 0 {
		zzv.Assert(zzHdr(wh.sentHdr, "Content-Length") == "", "head:content-length-without-a-body")
	}
}

// ---- histories of adding/removing GET and other methods ----

var zzC08Alpha = []zzOp{
	zzH("/h", "GET"), zzH("/h", "POST"), zzH("/h/{x}", "GET", "DELETE"),
	zzRm("/h", "GET"), zzRm("/h", "HEAD"), zzRm("/h", "OPTIONS"), zzRm("/h", ""), zzRm("/h", "POST"),
	zzRm("/h", "HEAD", "POST"), zzRm("/h/{x}", "OPTIONS", "HEAD", ""), zzRm("/h/{x}", "DELETE", "GET"), zzRm("/h"),
	zzH("/h", "TRACE"), // registered by hand: the router of these histories has no WithTrace
}

// ZZC08Hist(n): every history of n%10 operations; then every method on both patterns.
// n/10 = 1: the histories start after "/h/{x}" was registered, so that the node of "/h"
// outlives the removal of all its methods.
func ZZC08Hist(n int) {
	r := zzNewRouter("r")
	m := &zzModel{}
	if n/10 == 1 {
		zzApply(r, m, zzH("/h/{x}", "PUT"), 50)
	}
	for i := 0; i < n%10; i++ {
		op := zzC08Alpha[zzv.Choice("op", len(zzC08Alpha))]
		if !zzApply(r, m, op, i+1) {
			zzv.Assume(false)
		}
	}
	zzv.Cover("history")
	zzCheckRoutes("routes", r, m, false)
	for _, p := range []string{"/h", "/h/7"} {
		for _, x := range []string{"GET", "HEAD", "OPTIONS", "POST", "DELETE", "PUT", "TRACE", ""} {
			var o *zzObs
			pn, _ := zzGuard(func() { o, _ = zzServe(r, zzReq(x, p)) })
			zzv.Assert(!pn, "hist:request-panics")
			if x == "" {
				// an empty method is never a registered method
				zzv.Assert(o.id == id404 || o.id == id405, "hist:empty-method-served")
				continue
			}
			zzExpectDispatch("hist", m, p, x, o)
		}
	}
}

// ZZC08Reg(n): Handle with an arbitrary method string of <= n bytes.
func ZZC08Reg(n int) {
	trace := n >= 100
	var r *Router[*hnd]
	if trace {
		r = zzNewRouter("r", WithTrace[*hnd](&hnd{id: idTrc}))
	} else {
		r = zzNewRouter("r")
	}
	r.Handle("/a", &hnd{id: 1}, nil, "POST")
	method := zzv.Bytes("m", n%100)
	before := zzJoin(r.Routes()["/a"])
	var rec any
	func() {
		defer func() { rec = recover() }()
		r.Handle("/a", &hnd{id: 2}, nil, method)
	}()
	valid := method == "GET" || method == "DELETE" || method == "PUT" || method == "PATCH" || method == "CONNECT" || (!trace && method == "TRACE")
	if rec == nil {
		zzv.Cover("registered")
		zzv.Assert(valid, "reg:reserved-or-unknown-method-registered")
		o, _ := zzServe(r, zzReq(method, "/a"))
		zzv.Assert(o.id == 2, "reg:registered-method-not-served")
	} else {
		zzv.Cover("rejected")
		zzv.Assert(!zzv.IsRuntime(rec), "reg:runtime-fault")
		zzv.Assert(!valid, "reg:valid-method-rejected")
		zzv.Assert(zzJoin(r.Routes()["/a"]) == before, "reg:rejected-registration-changed-the-method-set")
	}
}

// ZZC08Rec(n): HEAD of a route whose GET handler panics, on a router with a recovery option that
// writes an error page: same status as GET, no body bytes. n = max parameter length.
func ZZC08Rec(n int) {
	opt := WithStatusRecovery(503)
	if zzv.Choice("recovery", 2) == 1 {
		opt = WithRecovery(func(w http.ResponseWriter, msg any) {
			w.Header().Set("X-E", "1")
			w.WriteHeader(500)
			w.Write([]byte("error page"))
		})
	}
	// the handler panics before it has written anything
	call := func(w http.ResponseWriter, r *http.Request, rt types.Route, h *hnd) {
		zzO.calls++
		zzO.id = h.id
		if h.id == 7 {
			panic("boom")
		}
		zzCall(w, r, rt, h)
	}
	r := NewRouter[*hnd]("r", call, &hnd{id: id404}, zzB405, zzBOpt, opt)
	r.Handle("/g/{x}", &hnd{id: 7}, nil, "GET")
	r.Handle("/ok", &hnd{id: 8}, nil, "GET")
	path := "/g/" + zzv.Bytes("x", n)
	zzBoomArmed, zzBoomVal = true, "boom"
	og := &zzObs{}
	zzO = og
	wg := newW()
	r.ServeHTTP(wg, zzReq("GET", path))
	zzFinish(wg)
	oh := &zzObs{}
	zzO = oh
	wh := newW()
	r.ServeHTTP(wh, zzReq("HEAD", path))
	zzFinish(wh)
	zzBoomArmed = false
	zzv.Cover("head-of-a-panicking-handler")
	zzv.Assert(og.id == 7 && oh.id == 7, "head-recovery:GET-handler-not-run")
	zzv.Assert(wg.n > 0, "head-recovery:GET-error-page-missing")
	zzv.Assert(wh.status == wg.status, "head-recovery:status-differs-from-GET")
	zzv.Assert(wh.n == 0, "head-recovery:body-bytes-reached-the-client")
	// an ordinary HEAD afterwards: nothing of the recovered request may show (zzCall writes "body": 4 bytes)
	o3 := &zzObs{}
	zzO = o3
	w3 := newW()
	r.ServeHTTP(w3, zzReq("HEAD", "/ok"))
	zzFinish(w3)
	zzv.Assert(o3.id == 8 && w3.n == 0 && zzHdr(w3.sentHdr, "Content-Length") == "4;", "head-recovery:a-later-HEAD-is-disturbed-by-the-recovered-one")
}
