//go:build verif

package mux

import (
	"net/http"

	zzv "github.com/issue9/mux/v9/internal/zzverif"
	"github.com/issue9/mux/v9/types"
)

// ---- C07: instances are isolated; a quiescent router serves concurrently ----

// zzFreshObs: what a brand-new router answers.
func zzFreshObs(trace bool) string {
	var r *Router[*hnd]
	if trace {
		r = zzNewRouter("fresh", WithTrace[*hnd](&hnd{id: idTrc}))
	} else {
		r = zzNewRouter("fresh")
	}
	_, w := zzServe(r, zzReq("OPTIONS", "*"))
	s := "star=" + w.h.Get("Allow")
	o, w2 := zzServe(r, zzReq("GET", "/nothing"))
	s += "|404=" + string(rune('0'+w2.status/100)) + "|n=" + string(rune('0'+o.params.Count()))
	rs := r.Routes()
	s += "|routes=" + string(rune('0'+len(rs))) + ":" + zzJoin(rs["*"])
	r.Handle("/z/{a}", &hnd{id: 1}, nil, "GET", "PUT")
	_, w3 := zzServe(r, zzReq("OPTIONS", "/z/1"))
	s += "|route=" + w3.h.Get("Allow")
	// the same shapes other instances use, with and without capturing names
	r.Handle("/a/{x:\\d+}y", &hnd{id: 2}, nil, "GET")
	r.Handle("/b/{-x:\\d+}y", &hnd{id: 3}, nil, "GET")
	o5, w5 := zzServe(r, zzReq("GET", "/a/5y"))
	v5, _ := o5.params.Get("x")
	o6, _ := zzServe(r, zzReq("GET", "/b/5y"))
	s += "|re=" + string(rune('0'+w5.status/100)) + v5 + string(rune('0'+o6.params.Count()))
	u, err := r.URL(true, "/a/{x:\\d+}y", map[string]string{"x": "7"})
	s += "|url=" + u + string(rune('0'+map[bool]int{true: 1, false: 0}[err == nil]))
	_, w4 := zzServe(r, zzReq("OPTIONS", "*"))
	star2 := ""
	for _, x := range zzSplitAllow(w4.h.Get("Allow")) {
		if x != "HEAD" { // OPTIONS * may or may not list HEAD
			star2 += x + ","
		}
	}
	return s + "|star2=" + star2
}

// zzFreshWant: what the documentation prescribes for zzFreshObs, independent of any earlier observation.
func zzFreshWant(trace bool) string {
	t, t2 := "", ""
	if trace {
		t, t2 = ", TRACE", "TRACE,"
	}
	return "star=OPTIONS" + t + "|404=4|n=0|routes=1:OPTIONS" + t + "|route=GET, HEAD, OPTIONS, PUT" + t + "|re=250|url=/a/7y1|star2=GET,OPTIONS,PUT," + t2
}

// ZZC07Seq(n): a fresh router answers identically whatever other instances did before. n = number of foreign operations.
func ZZC07Seq(n int) {
	trace := zzv.Choice("trace", 2) == 1
	// either observe a fresh router first and compare afterwards, or let the other instances
	// act first and compare with what the documentation prescribes
	before := zzFreshWant(trace)
	if zzv.Choice("observe-first", 2) == 1 {
		before = zzFreshObs(trace)
		zzv.Assert(before == zzFreshWant(trace), "fresh-router-answers-differ-from-the-documented-ones")
	}
	other := zzNewRouter("other")
	otherT := zzNewRouter("otherT", WithTrace[*hnd](&hnd{id: idTrc}))
	hs := NewHosts(false)
	g := NewGroup[*hnd](zzCall, &hnd{id: id404}, zzB405, zzBOpt)
	for i := 0; i < n; i++ {
		switch zzv.Choice("op", 10) {
		case 0:
			zzGuard(func() { other.Handle("/a/{x}", &hnd{id: 1}, nil, "GET", "POST") })
		case 1:
			zzGuard(func() { otherT.Handle("/b", &hnd{id: 2}, nil, "DELETE", "PATCH", "CONNECT") })
		case 2:
			other.Remove("/a/{x}", "GET")
		case 3:
			otherT.Clean()
		case 4:
			zzGuard(func() { hs.Add("a.co", "{s}.b.co") })
		case 5:
			hs.Delete("a.co")
		case 6:
			zzGuard(func() { g.New("g1", nil).Handle("/c", &hnd{id: 3}, nil) })
		case 7:
			zzServe(other, zzReq("PUT", "/a/7"))
			zzServe(otherT, zzReq("OPTIONS", "*"))
		case 8:
			zzGuard(func() { other.Handle("/a/{-x:\\d+}y", &hnd{id: 4}, nil, "GET") })
			zzGuard(func() { otherT.Handle("/b/{x:\\d+}y", &hnd{id: 5}, nil, "GET") })
			zzServe(other, zzReq("GET", "/a/1y"))
		case 9:
			CheckSyntax("/a/{-x:\\d+}y")
			zzGuard(func() { hs.Add("{-x:\\d+}y", "{x:\\d+}z") })
		}
	}
	zzv.Cover("foreign-activity")
	zzv.Assert(zzFreshObs(trace) == before, "fresh-router-answers-depend-on-what-other-instances-did")
}

// ZZC07Pool(n): consecutive requests reuse the pooled context; each sees exactly its own parameters. n = max path length.
func ZZC07Pool(n int) {
	r, _ := zzBuild(zzTables[0])
	if c := zzv.Choice("group-first", 3); c >= 1 {
		// a Group (its own release path for the pooled context) serves first, without / with a recovery option
		g := NewGroup[*hnd](zzCall, &hnd{id: id404}, zzB405, zzBOpt)
		if c == 2 {
			g = NewGroup[*hnd](zzCall, &hnd{id: id404}, zzB405, zzBOpt, WithStatusRecovery(500))
		}
		gr := g.New("g", NewPathVersion("v", "v1"))
		gr.Handle("/q/{k}", &hnd{id: 7}, nil, "GET")
		zzServe(g, zzReq("GET", "/v1/q/1"))
		zzServe(g, zzReq("GET", "/nope"))
	}
	for i := 0; i < 2; i++ {
		path := zzv.Bytes("p", n)
		o, _ := zzServe(r, zzReq("GET", path))
		if o.node && path != "" && path != "*" {
			zzv.Cover("pooled-request-served")
			zzCheckRoute("pooled", o.pattern, path, o.params)
		} else {
			zzv.Assert(o.params.Count() == 0, "pooled:404-reports-parameters")
		}
	}
}

// ZZC07Par(n): concurrent use of distinct instances (n=0..2) and concurrent requests on one quiescent router (n=10..13).
func ZZC07Par(n int) {
	switch n {
	case 0: // two independent routers register routes in parallel
		a, b := zzNewRouter("a"), zzNewRouter("b")
		zzv.Par(
			func() { a.Handle("/x", &hnd{id: 1}, nil, "GET"); a.Handle("/x", &hnd{id: 2}, nil, "PUT", "PATCH") },
			func() { b.Handle("/y/{v}", &hnd{id: 3}, nil, "POST", "DELETE"); b.Remove("/y/{v}", "POST") },
		)
		zzv.Cover("par-two-routers")
		_, w := zzServe(a, zzReq("OPTIONS", "/x"))
		zzv.Assert(w.h.Get("Allow") == "GET, HEAD, OPTIONS, PATCH, PUT", "par:router-a-corrupted")
		_, w = zzServe(b, zzReq("OPTIONS", "/y/1"))
		zzv.Assert(w.h.Get("Allow") == "DELETE, OPTIONS", "par:router-b-corrupted")
	case 1: // a router and a Hosts matcher
		a := zzNewRouter("a")
		hs := NewHosts(false, "a.co")
		zzv.Par(
			func() { a.Handle("/x", &hnd{id: 1}, nil, "CONNECT", "GET"); zzServeQuiet(a, "GET", "/x") },
			func() {
				hs.Add("{s}.b.co")
				req := zzReq("GET", "/")
				req.Host = "q.b.co"
				hs.Match(req, types.NewContext())
			},
		)
		zzv.Cover("par-router-and-hosts")
	case 2: // a router being built while another one serves
		a, b := zzNewRouter("a"), zzNewRouter("b")
		b.Handle("/k/{id}", &hnd{id: 9}, nil, "GET")
		zzv.Par(
			func() { a.Handle("/n/{x}/m", &hnd{id: 1}, nil, "DELETE", "POST"); a.Clean() },
			func() {
				zzServeQuiet(b, "GET", "/k/5")
				zzServeQuiet(b, "OPTIONS", "*")
				zzServeQuiet(b, "PUT", "/k/5")
			},
		)
		zzv.Cover("par-build-and-serve")
	case 3: // two routers built from the same Option values: one is being built while the other serves
		cors := WithCORS([]string{"o1"}, []string{"X-A"}, []string{"E1"}, 60, true)
		dom := WithURLDomain("http://d/")
		a := zzNewRouter("a", cors, dom)
		a.Handle("/x", &hnd{id: 1}, nil, "GET")
		zzv.Par(
			func() { zzNewRouter("b", cors, dom).Handle("/y", &hnd{id: 2}, nil, "GET") },
			func() {
				req := zzReq("GET", "/x")
				req.Header.Set("Origin", "o1")
				w := newW()
				w.obs = &zzObs{}
				a.ServeHTTP(w, req)
				zzv.Assert(w.h.Get("Access-Control-Allow-Origin") == "o1", "par:cors-grant-lost")
				a.URL(false, "/x", nil)
			},
		)
		zzv.Cover("par-shared-options")
	case 4: // two requests at once through one quiescent Group whose matchers (And / Or / path version / hosts) accept and reject
		g := NewGroup[*hnd](zzCall, &hnd{id: id404}, zzB405, zzBOpt)
		ra := g.New("and", AndMatcher(NewPathVersion("v", "v1"), NewHosts(false, "zz.co")))
		ra.Handle("/x", &hnd{id: 1}, nil, "GET")
		ro := g.New("or", OrMatcher(NewHosts(false, "yy.co"), AndMatcher(NewPathVersion("w", "v2"), NewHeaderVersion("h", "", func(error) {}, "9"))))
		ro.Handle("/x", &hnd{id: 2}, nil, "GET")
		rd := g.New("default", nil)
		rd.Handle("/v1/x", &hnd{id: 3}, nil, "GET")
		rd.Handle("/v2/x", &hnd{id: 4}, nil, "GET")
		serve := func(path string) *zzObs {
			o := &zzObs{}
			w := newW()
			w.obs = o
			g.ServeHTTP(w, zzReq("GET", path))
			return o
		}
		var o1, o2 *zzObs
		zzv.Par(
			func() { o1 = serve("/v1/x") },
			func() { o2 = serve("/v2/x") },
		)
		zzv.Cover("par-group-requests")
		zzv.Assert(o1.id == 3 && o1.nparams == 0 && o2.id == 4 && o2.nparams == 0, "par:group-request-served-by-the-wrong-router-or-with-leftover-parameters")
	default: // concurrent requests on one quiescent router, with (12,13) and without (10,11) WithLock
		var r *Router[*hnd]
		if n >= 12 {
			r = zzNewRouter("q", WithLock(true))
		} else {
			r = zzNewRouter("q")
		}
		for i, op := range zzTables[0] {
			r.Handle(op.p, &hnd{id: i + 1}, nil, op.ms...)
		}
		p1 := "/u/" + zzv.Bytes("a", 2) + "/7"
		p2 := "/u/" + zzv.Bytes("b", 1) + "/x/l"
		var o1, o2 *zzObs
		zzv.Par(
			func() { o1 = zzServeQuiet(r, "GET", p1) },
			func() { o2 = zzServeQuiet(r, "GET", p2) },
		)
		zzv.Cover("par-requests")
		if o1.node {
			zzCheckRoute("par1", o1.pattern, p1, o1.params)
		}
		if o2.node {
			zzCheckRoute("par2", o2.pattern, p2, o2.params)
		}
	}
}

// zzServeQuiet: a request whose observation is private to the calling goroutine.
func zzServeQuiet(r *Router[*hnd], method, path string) *zzObs {
	o := &zzObs{}
	w := newW()
	req := zzReq(method, path)
	ctx := types.NewContext()
	ctx.Path = path
	node, h, ok := r.tree.Handler(ctx, method)
	_ = ok
	if node != nil {
		o.node = true
		o.pattern = node.Pattern()
	}
	o.id = h.id
	o.params = zzSnapshot(ctx)
	_ = w
	_ = req
	return o
}

var (
	zzNestR     *Router[*hnd]
	zzNestDepth int
	zzNestBad   bool
)

// zzCallNest: the handler of route 1 serves a sub-request on the same router while
// its own request is in flight (an internal redirect, a batch endpoint, ...).
func zzCallNest(w http.ResponseWriter, r *http.Request, rt types.Route, h *hnd) {
	if h.id == 1 && zzNestDepth == 0 {
		zzNestDepth++
		before := zzSnapshot(rt.Params())
		zzNestR.ServeHTTP(newW(), zzReq("GET", "/k/inner"))
		zzNestDepth--
		if !before.equal(zzSnapshot(rt.Params())) {
			zzNestBad = true
		}
	}
	zzCall(w, r, rt, h)
}

// ZZC07Nested(n): two requests in flight at once (nested) each keep their own pooled context. n = max value length.
func ZZC07Nested(n int) {
	r := NewRouter[*hnd]("n", zzCallNest, &hnd{id: id404}, zzB405, zzBOpt)
	r.Handle("/u/{id}", &hnd{id: 1}, nil, "GET")
	r.Handle("/k/{pid}", &hnd{id: 2}, nil, "GET")
	zzNestR, zzNestDepth, zzNestBad = r, 0, false
	if c := zzv.Choice("group-first", 3); c >= 1 {
		g := NewGroup[*hnd](zzCall, &hnd{id: id404}, zzB405, zzBOpt)
		if c == 2 {
			g = NewGroup[*hnd](zzCall, &hnd{id: id404}, zzB405, zzBOpt, WithStatusRecovery(500))
		}
		g.New("g", NewPathVersion("v", "v1")).Handle("/q/{k}", &hnd{id: 7}, nil, "GET")
		zzServe(g, zzReq("GET", "/v1/q/1"))
		zzServe(g, zzReq("GET", "/nope")) // the group's own 404: no router accepts
	}
	v := zzv.Bytes("v", n)
	o, _ := zzServe(r, zzReq("GET", "/u/"+v))
	zzv.Cover("nested-request")
	zzv.Assert(!zzNestBad, "nested:a-request-in-flight-lost-or-gained-parameters-while-another-was-served")
	got, ok := o.params.Get("id")
	zzv.Assert(o.id == 1 && ok && got == v && o.params.Count() == 1, "nested:outer-request-does-not-see-exactly-its-own-parameters")
}

// ZZC07Wide(n): a request that captures more parameters than a pooled context may keep (the
// release threshold), then a request with a symbolic path: it must be served with exactly its own parameters.
func ZZC07Wide(n int) {
	r := zzNewRouter("w")
	pat, path := "", ""
	nparams := 30 + zzv.Choice("extra", 3)
	for i := 0; i < nparams; i++ {
		name := "p" + string(rune('a'+i/10)) + string(rune('0'+i%10))
		pat += "/{" + name + "}"
		path += "/" + string(rune('0'+i%10))
	}
	r.Handle(pat+"/end", &hnd{id: 1}, nil, "GET")
	r.Handle("/u/{id}", &hnd{id: 2}, nil, "GET")
	o, _ := zzServe(r, zzReq("GET", path+"/end"))
	zzv.Assert(o.id == 1 && o.params.Count() >= 30, "wide:route-with-many-parameters-not-served")
	p2 := "/u/" + zzv.Bytes("v", n)
	var o2 *zzObs
	pn, _ := zzGuard(func() { o2, _ = zzServe(r, zzReq("GET", p2)) })
	zzv.Cover("after-a-wide-request")
	zzv.Assert(!pn, "wide:request-after-a-wide-one-panics")
	zzv.Assert(o2.id == 2, "wide:request-after-a-wide-one-not-served")
	zzCheckRoute("wide", o2.pattern, p2, o2.params)
}

// ZZC07Grp(n): two routers created by one Group; only one of them is given an interceptor option.
// The other must behave as if it were alone: for it the same rule text is a regular expression.
// n = max length of the parameter value.
func ZZC07Grp(n int) {
	g := NewGroup[*hnd](zzCall, &hnd{id: id404}, zzB405, zzBOpt)
	var a, b *Router[*hnd]
	if zzv.Choice("order", 2) == 0 {
		a = g.New("a", NewPathVersion("", "v1"), WithDigitInterceptor("dg"))
		b = g.New("b", nil)
	} else {
		b = g.New("b", nil)
		a = g.New("a", NewPathVersion("", "v1"), WithDigitInterceptor("dg"))
	}
	a.Handle("/p/{id:dg}", &hnd{id: 1}, nil, "GET")
	b.Handle("/p/{id:dg}", &hnd{id: 2}, nil, "GET")
	v := zzv.Bytes("v", n)
	oa, _ := zzServe(a, zzReq("GET", "/p/"+v))
	ob, _ := zzServe(b, zzReq("GET", "/p/"+v))
	zzv.Cover("group-siblings")
	zzv.Assert((oa.id == 1) == zzAllDigits(v) && (oa.id == 1 || oa.id == id404), "siblings:the-router-with-the-interceptor-does-not-use-it")
	zzv.Assert((ob.id == 2) == (v == "dg") && (ob.id == 2 || ob.id == id404), "siblings:an-option-given-to-one-router-shows-in-its-sibling")
}
