//go:build verif

package mux

import (
	"html"
	"math/bits"
	"regexp"
	"strconv"
	"strings"
	"unicode"

	zzv "github.com/issue9/mux/v9/internal/zzverif"
)

// Self-tests of the executor's models: the harness only observes what the standard library
// returns on a symbolic string; the native validation of sampled witness paths (-native K)
// compares every observation with the real library. Not part of any property.

var zzSelfRules = []string{"\\d+", "[a-z]+", "[a-c]+", "\\w*", "a|bc", "(?P<x>\\d+)\\.h", "(?:[a-z]+)/e", "a*?b", "^x", "x$", "\\bx", "(?i)k",
	"[^/]+", ".", "(a)|(b)", "..", "\\D", "[[:alpha:]]+", "é", "(?s:.+)/", "a{2}", "x*"}

func zzLoc(loc []int) string {
	s := ""
	for _, x := range loc {
		s += strconv.Itoa(x) + ","
	}
	return s
}

// ZZSelfRegexp(n): n = rule*10 + max length.
func ZZSelfRegexp(n int) {
	s := zzv.Bytes("s", n%10)
	re := regexp.MustCompile(zzSelfRules[n/10])
	zzv.Obs("loc", zzLoc(re.FindStringSubmatchIndex(s)))
	zzv.Obs("match", re.MatchString(s))
	zzv.Obs("find", re.FindString(s))
	zzv.Cover("selftest")
}

// ZZSelfStrings(n): string intrinsics on every ASCII string of <= n bytes.
func ZZSelfStrings(n int) {
	s := zzv.Bytes("s", n)
	zzv.Assume(zzASCII(s))
	zzv.Obs("lower", strings.ToLower(s))
	zzv.Obs("upper", strings.ToUpper(s))
	zzv.Obs("trim", strings.TrimSpace(s))
	zzv.Obs("index", strings.Index(s, "/x"))
	zzv.Obs("indexbyte", strings.IndexByte(s, ':'))
	zzv.Obs("last", strings.LastIndexByte(s, ':'))
	zzv.Obs("count", strings.Count(s, ","))
	zzv.Obs("split", strings.Join(strings.Split(s, ","), "|"))
	zzv.Obs("prefix", strings.HasPrefix(s, "/v") || strings.HasSuffix(s, "]"))
	zzv.Obs("trimprefix", strings.TrimPrefix(s, "/"))
	zzv.Obs("fold", strings.EqualFold(s, "x-a"))
	zzv.Obs("quote", regexp.QuoteMeta(s))
	zzv.Obs("esc", html.EscapeString(s))
	zzv.Obs("contains", strings.Contains(s, "ab"))
	a, b, ok := strings.Cut(s, "=")
	zzv.Obs("cut", a+"|"+b)
	zzv.Obs("cutok", ok)
	zzv.Cover("selftest")
}

// ZZSelfRunes(n): range over every string of <= n bytes (UTF-8 decoding).
func ZZSelfRunes(n int) {
	s := zzv.Bytes("s", n)
	cnt, sum, lastpos := 0, 0, -1
	for i, r := range s {
		cnt++
		sum += int(r)
		lastpos = i
	}
	zzv.Obs("runes", cnt)
	zzv.Obs("sum", sum)
	zzv.Obs("lastpos", lastpos)
	v, err := strconv.ParseInt(s, 10, 64)
	zzv.Obs("int", int(v))
	zzv.Obs("interr", err != nil)
	u, err2 := strconv.ParseUint(s, 10, 64)
	zzv.Obs("uint", int(u))
	zzv.Obs("uinterr", err2 != nil)
	bv, err3 := strconv.ParseBool(s)
	zzv.Obs("bool", bv)
	zzv.Obs("boolerr", err3 != nil)
	zzv.Cover("selftest")
}

var zzSelfWords = []string{"X-İd", "x-id", "Kelvin", "kelvin", "straße", "ſtop", "8٠８²", "\xff\xfe", ""}

// ZZSelfUnicode(n): unicode predicates / case mappings / math/bits / Builder.Grow on ASCII strings of
// <= n bytes (symbolic) and on a few concrete non-ASCII words.
func ZZSelfUnicode(n int) {
	s := zzv.Bytes("s", n)
	zzv.Assume(zzASCII(s))
	w := zzSelfWords[zzv.Choice("w", len(zzSelfWords))]
	zzv.Obs("digits", strings.IndexFunc(s, func(r rune) bool { return !unicode.IsDigit(r) }))
	zzv.Obs("letters", strings.IndexFunc(s, unicode.IsLetter))
	zzv.Obs("space", strings.TrimFunc(s, unicode.IsSpace))
	zzv.Obs("upper", strings.Map(unicode.ToUpper, s))
	zzv.Obs("fields", strings.Join(strings.FieldsFunc(s, unicode.IsPunct), "|"))
	zzv.Obs("wdigits", strings.IndexFunc(w, func(r rune) bool { return !unicode.IsDigit(r) }))
	zzv.Obs("wnum", strings.IndexFunc(w, unicode.IsNumber))
	zzv.Obs("wlower", strings.ToLower(w))
	zzv.Obs("wupper", strings.ToUpper(w))
	for _, x := range zzSelfWords {
		zzv.Obs("wfold", strings.EqualFold(w, x))
	}
	zzv.Obs("sfold", strings.EqualFold(s, "k-i"))
	x := uint(len(s))<<3 | 5
	zzv.Obs("bits", bits.TrailingZeros(x<<uint(len(s)))*100+bits.Len(x)*10+bits.OnesCount(x))
	var sb strings.Builder
	grew := func() (p bool) {
		defer func() { p = recover() != nil }()
		sb.Grow(len(s) - 2)
		return
	}()
	zzv.Obs("growpanic", grew)
	zzv.Cover("selftest")
}
