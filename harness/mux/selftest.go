//go:build verif

package mux

import (
	"bytes"
	"html"
	"maps"
	"math/bits"
	"net/url"
	"path"
	"regexp"
	"slices"
	"sort"
	"strconv"
	"strings"
	"sync"
	"sync/atomic"
	"unicode"

	zzv "github.com/issue9/mux/v9/internal/zzverif"
)

// Self-tests of the executor's models: the harness only observes what the standard library
// returns on a symbolic string; the native validation of sampled witness paths (-native K)
// compares every observation with the real library. Not part of any property.

var zzSelfRules = []string{"\\d+", "[a-z]+", "[a-c]+", "\\w*", "a|bc", "(?P<x>\\d+)\\.h", "(?:[a-z]+)/e", "a*?b", "^x", "x$", "\\bx", "(?i)k",
	"[^/]+", ".", "(a)|(b)", "..", "\\D", "[[:alpha:]]+", "é", "(?s:.+)/", "a{2}", "x*"}

func zzLoc(loc []int) string {
	s := ""
	for _, x := range loc {
		s += strconv.Itoa(x) + ","
	}
	return s
}

// ZZSelfRegexp(n): n = rule*10 + max length.
func ZZSelfRegexp(n int) {
	s := zzv.Bytes("s", n%10)
	re := regexp.MustCompile(zzSelfRules[n/10])
	zzv.Obs("loc", zzLoc(re.FindStringSubmatchIndex(s)))
	zzv.Obs("match", re.MatchString(s))
	zzv.Obs("find", re.FindString(s))
	zzv.Cover("selftest")
}

// ZZSelfStrings(n): string intrinsics on every ASCII string of <= n bytes.
func ZZSelfStrings(n int) {
	s := zzv.Bytes("s", n)
	zzv.Assume(zzASCII(s))
	zzv.Obs("lower", strings.ToLower(s))
	zzv.Obs("upper", strings.ToUpper(s))
	zzv.Obs("trim", strings.TrimSpace(s))
	zzv.Obs("index", strings.Index(s, "/x"))
	zzv.Obs("indexbyte", strings.IndexByte(s, ':'))
	zzv.Obs("last", strings.LastIndexByte(s, ':'))
	zzv.Obs("count", strings.Count(s, ","))
	zzv.Obs("split", strings.Join(strings.Split(s, ","), "|"))
	zzv.Obs("prefix", strings.HasPrefix(s, "/v") || strings.HasSuffix(s, "]"))
	zzv.Obs("trimprefix", strings.TrimPrefix(s, "/"))
	zzv.Obs("fold", strings.EqualFold(s, "x-a"))
	zzv.Obs("quote", regexp.QuoteMeta(s))
	zzv.Obs("esc", html.EscapeString(s))
	zzv.Obs("contains", strings.Contains(s, "ab"))
	a, b, ok := strings.Cut(s, "=")
	zzv.Obs("cut", a+"|"+b)
	zzv.Obs("cutok", ok)
	zzv.Cover("selftest")
}

// ZZSelfRunes(n): range over every string of <= n bytes (UTF-8 decoding).
func ZZSelfRunes(n int) {
	s := zzv.Bytes("s", n)
	cnt, sum, lastpos := 0, 0, -1
	for i, r := range s {
		cnt++
		sum += int(r)
		lastpos = i
	}
	zzv.Obs("runes", cnt)
	zzv.Obs("sum", sum)
	zzv.Obs("lastpos", lastpos)
	v, err := strconv.ParseInt(s, 10, 64)
	zzv.Obs("int", int(v))
	zzv.Obs("interr", err != nil)
	u, err2 := strconv.ParseUint(s, 10, 64)
	zzv.Obs("uint", int(u))
	zzv.Obs("uinterr", err2 != nil)
	bv, err3 := strconv.ParseBool(s)
	zzv.Obs("bool", bv)
	zzv.Obs("boolerr", err3 != nil)
	zzv.Cover("selftest")
}

var zzSelfWords = []string{"X-İd", "x-id", "Kelvin", "kelvin", "straße", "ſtop", "8٠８²", "\xff\xfe", ""}

// ZZSelfUnicode(n): unicode predicates / case mappings / math/bits / Builder.Grow on ASCII strings of
// <= n bytes (symbolic) and on a few concrete non-ASCII words.
func ZZSelfUnicode(n int) {
	s := zzv.Bytes("s", n)
	zzv.Assume(zzASCII(s))
	w := zzSelfWords[zzv.Choice("w", len(zzSelfWords))]
	zzv.Obs("digits", strings.IndexFunc(s, func(r rune) bool { return !unicode.IsDigit(r) }))
	zzv.Obs("letters", strings.IndexFunc(s, unicode.IsLetter))
	zzv.Obs("space", strings.TrimFunc(s, unicode.IsSpace))
	zzv.Obs("upper", strings.Map(unicode.ToUpper, s))
	zzv.Obs("fields", strings.Join(strings.FieldsFunc(s, unicode.IsPunct), "|"))
	zzv.Obs("wdigits", strings.IndexFunc(w, func(r rune) bool { return !unicode.IsDigit(r) }))
	zzv.Obs("wnum", strings.IndexFunc(w, unicode.IsNumber))
	zzv.Obs("wlower", strings.ToLower(w))
	zzv.Obs("wupper", strings.ToUpper(w))
	for _, x := range zzSelfWords {
		zzv.Obs("wfold", strings.EqualFold(w, x))
	}
	zzv.Obs("sfold", strings.EqualFold(s, "k-i"))
	x := uint(len(s))<<3 | 5
	zzv.Obs("bits", bits.TrailingZeros(x<<uint(len(s)))*100+bits.Len(x)*10+bits.OnesCount(x))
	var sb strings.Builder
	grew := func() (p bool) {
		defer func() { p = recover() != nil }()
		sb.Grow(len(s) - 2)
		return
	}()
	zzv.Obs("growpanic", grew)
	zzv.Cover("selftest")
}

// ZZSelfMisc(n): library helpers a refactoring is likely to reach for, on a symbolic string of <= n bytes.
func ZZSelfMisc(n int) {
	s := zzv.Bytes("s", n)
	zzv.Assume(zzASCII(s))
	parts := strings.Split(s, ",")
	sort.Strings(parts)
	zzv.Obs("sorted", strings.Join(parts, "|"))
	p2 := strings.Split(s, ",")
	sort.Slice(p2, func(i, j int) bool { return p2[i] > p2[j] })
	zzv.Obs("sortslice", strings.Join(p2, "|"))
	p3 := slices.Clone(p2)
	slices.SortFunc(p3, func(a, b string) int { return strings.Compare(a, b) })
	zzv.Obs("sortfunc", strings.Join(p3, "|"))
	_, found := slices.BinarySearch(p3, "a")
	zzv.Obs("bsearch", found)
	mp := map[string]int{}
	for i, p := range parts {
		mp[p] = i
	}
	keys := slices.Sorted(maps.Keys(mp))
	zzv.Obs("keys", strings.Join(keys, "|"))
	cl := maps.Clone(mp)
	delete(cl, "a")
	zzv.Obs("clone", len(cl)*10+len(mp))
	var bb bytes.Buffer
	bb.WriteString(s)
	bb.WriteByte('!')
	zzv.Obs("buffer", bb.String())
	zzv.Obs("appendint", string(strconv.AppendInt(nil, int64(len(s))*37-5, 10)))
	zzv.Obs("fields", strings.Join(strings.Fields(s), "|"))
	zzv.Obs("repeat", strings.Repeat(s, 2))
	zzv.Obs("compact", strings.Join(slices.Compact(slices.Clone(parts)), "|"))
	zzv.Obs("idxfunc", slices.IndexFunc(parts, func(x string) bool { return x == "" }))
	zzv.Obs("contains", slices.Contains(parts, "b"))
	zzv.Obs("minmax", min(len(s), 2)*10+max(len(parts), 1))
	once := sync.OnceValue(func() int { return len(s) })
	zzv.Obs("once", once()+once())
	var ap atomic.Pointer[string]
	ap.Store(&s)
	zzv.Obs("atomicptr", *ap.Load())
	a, b, _ := strings.Cut(s, ":")
	u, err := url.Parse("http://h/" + a)
	zzv.Obs("urlerr", err != nil)
	if err == nil {
		zzv.Obs("urlpath", u.Path)
	}
	zzv.Obs("pathclean", path.Clean("/"+b))
	zzv.Obs("trimleft", strings.TrimLeft(s, "-/"))
	zzv.Obs("replace", strings.ReplaceAll(s, "a", "bb"))
	zzv.Obs("lastidx", strings.LastIndex(s, "/"))
	zzv.Obs("title", strings.ToTitle(s))
	zzv.Obs("eqfold", strings.EqualFold(s, "A,b"))
	zzv.Obs("atoi", func() int { v, _ := strconv.Atoi(s); return v }())
	zzv.Cover("selftest")
}

var zzSelfClass = func() (t [128]uint8) {
	for c := '0'; c <= '9'; c++ {
		t[c] = 1
	}
	for c := 'a'; c <= 'z'; c++ {
		t[c] = 2
	}
	return
}()
var zzSelfFlags = []bool{true, false, false, true, true, false, true}

// ZZSelfTable(n): table look-ups with a symbolic index (if-then-else chain instead of one path per index).
func ZZSelfTable(n int) {
	s := zzv.Bytes("s", n)
	sum := 0
	for i := 0; i < len(s); i++ {
		sum = sum*3 + int(zzSelfClass[s[i]&0x7f])
	}
	zzv.Obs("classes", sum)
	if len(s) > 0 {
		p := func() (p bool) {
			defer func() { p = recover() != nil }()
			if zzSelfFlags[s[0]>>4] {
				sum++
			}
			return
		}()
		zzv.Obs("oob", p)
		zzv.Obs("flag", sum)
	}
	zzv.Cover("selftest")
}
