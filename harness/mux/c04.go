//go:build verif

package mux

import (
	zzv "github.com/issue9/mux/v9/internal/zzverif"
)

// ---- C04: Allow headers and method sets at every moment ----

var zzC04Alpha = [][]zzOp{
	{ // 0: methods added after other registrations split the node
		zzH("/p/au", "GET"), zzH("/p/ab", "GET"), zzH("/p/au", "POST"), zzH("/p/a{x}", "DELETE"), zzH("/p", "PUT", "PATCH"),
		zzRm("/p/au"), zzRm("/p/au", "POST"), zzRm("/p/ab", "PUT", "TRACE"), zzRm("/p/au", "GET"), zzCl(),
		zzRm("/p"), // all methods of an inner node whose descendants stay live
	},
	{ // 1: parameters that split, removal of everything, prefix clean, Any
		zzH("/{a}/x", "GET"), zzH("/{a}/y", "POST"), zzH("/{a}/x", "DELETE"), zzH("/k", "GET", "POST", "DELETE", "PUT", "PATCH", "CONNECT"),
		zzRm("/{a}/x", "GET", "DELETE"), zzRm("/k", "CONNECT", "GET"), zzPCl("/{a}"), zzRm("/{a}/y"), zzH("/{a}/xz", "PUT"), zzRm("/nope", "GET"), zzRm("/k", "get", "PROPFIND"),
	},
	{ // 2 (after a setup with a split literal node and an unrelated route): a sibling goes away and the survivor gets a new
		// method; prefixes that end exactly on a node boundary, inside a segment, and on the parent
		zzRm("/p/ab"), zzH("/p/au", "POST"), zzPCl("/p/a"), zzPCl("/p/"), zzPCl("/p"), zzRm("/k", "PUT"), zzH("/p/ab", "POST"), zzRm("/p/au"), zzPCl("/k"), zzRm("/p/au", "GET", "GET"),
	},
	{ // 3 (only without WithTrace): TRACE registered by hand is an ordinary method
		zzH("/t", "TRACE"), zzH("/t", "GET"), zzRm("/t"), zzRm("/t", "TRACE"), zzCl(), zzH("/u", "TRACE", "POST"), zzRm("/u", "POST"), zzPCl("/t"),
	},
}

// zzC04Setup: operations applied before the explored history (per alphabet).
var zzC04Setup = [][]zzOp{nil, nil,
	{zzH("/p/au", "GET"), zzH("/p/ab", "GET"), zzH("/k", "DELETE", "PUT")},
	nil,
}

var zzAllMethods = []string{"GET", "POST", "DELETE", "PUT", "PATCH", "CONNECT", "TRACE"}

func zzContains(l []string, s string) bool {
	for _, x := range l {
		if x == s {
			return true
		}
	}
	return false
}

// zzSymWitness: a request path for pattern p whose parameter values are symbolic
// (<= 2 bytes each), so that every request reaching the route is covered.
func zzSymWitness(p string) string {
	s := ""
	for _, t := range zzTokenize(p) {
		if !t.param {
			s += t.lit
		} else {
			s += zzv.Bytes("v", 2)
		}
	}
	return s
}

func zzSplitAllow(s string) []string {
	var out []string
	cur := ""
	for i := 0; i < len(s); i++ {
		if s[i] == ',' {
			out = append(out, cur)
			cur = ""
			if i+1 < len(s) && s[i+1] == ' ' {
				i++
			}
			continue
		}
		cur += string(s[i])
	}
	if cur != "" {
		out = append(out, cur)
	}
	return out
}

func zzCheckAllow(r *Router[*hnd], m *zzModel, trace bool) {
	zzCheckRoutes("routes", r, m, trace)
	live := []string{}
	for _, rt := range m.routes {
		want := zzJoin(zzAllowSet(rt.ms, trace))
		path := zzSymWitness(rt.p)
		// OPTIONS <path>
		o, w := zzServe(r, zzReq("OPTIONS", path))
		if o.node && o.pattern == rt.p {
			zzv.Cover("options-allow")
			zzv.Assert(o.id == idOpt, "options:not-the-options-handler")
			zzv.Assert(w.h.Get("Allow") == want, "options:allow-header")
			zzv.Assert(o.allow == want, "options:node-allowheader")
			zzv.Assert(zzJoin(o.methods) == want, "options:node-methods")
		}
		// 405: the first method the route does not serve
		for _, x := range zzAllMethods {
			if zzContains(rt.ms, x) || (trace && x == "TRACE") {
				continue
			}
			o, w := zzServe(r, zzReq(x, path))
			if o.node && o.pattern == rt.p {
				zzv.Cover("405-allow")
				zzv.Assert(o.id == id405 && w.status == 405, "405:not-the-405-handler")
				zzv.Assert(w.h.Get("Allow") == want, "405:allow-header")
				zzv.Assert(o.allow == want, "405:node-allowheader")
			}
			break
		}
		for _, x := range rt.ms {
			if !zzContains(live, x) {
				live = append(live, x)
			}
		}
	}
	// OPTIONS *
	o, w := zzServe(r, zzReq("OPTIONS", "*"))
	zzv.Assert(o.id == idOpt && w.status == 200, "star:not-the-options-handler")
	got := zzSplitAllow(w.h.Get("Allow"))
	zzv.Assert(zzContains(got, "OPTIONS"), "star:allow-misses-OPTIONS")
	zzv.Assert(!trace || zzContains(got, "TRACE"), "star:allow-misses-TRACE")
	for _, x := range live {
		zzv.Assert(zzContains(got, x), "star:allow-misses-a-live-method")
	}
	for _, x := range got {
		ok := x == "OPTIONS" || x == "HEAD" || (trace && x == "TRACE") || zzContains(live, x)
		zzv.Assert(ok, "star:allow-lists-a-method-no-live-route-serves")
	}
	zzv.Assert(zzJoin(got) == zzJoin(zzSortedStrings(got)), "star:allow-not-sorted")
}

// ZZC04(n): n = alphabet*1000 + trace*100 + depth.
func ZZC04(n int) {
	alpha := zzC04Alpha[n/1000]
	trace := n/100%10 == 1
	depth := n % 100
	var r *Router[*hnd]
	if trace {
		r = zzNewRouter("r", WithTrace[*hnd](&hnd{id: idTrc}))
	} else {
		r = zzNewRouter("r")
	}
	m := &zzModel{}
	zzCheckAllow(r, m, trace) // brand-new router
	for i, op := range zzC04Setup[n/1000] {
		zzApply(r, m, op, 50+i)
	}
	for i := 0; i < depth; i++ {
		op := alpha[zzv.Choice("op", len(alpha))]
		// observers run before every step too: whatever they cache must not outlive it
		zzCheckRoutes("routes-mid", r, m, trace)
		zzServe(r, zzReq("OPTIONS", "*"))
		if !zzApply(r, m, op, i+1) {
			zzv.Assume(false)
		}
		if i == depth-1 {
			zzv.Cover("history")
			zzCheckAllow(r, m, trace)
		}
	}
}
