//go:build verif

package mux

import (
	zzv "github.com/issue9/mux/v9/internal/zzverif"
)

// ---- C17: registration is validated atomically ----

type zzC17Pat struct {
	p         string
	malformed bool
}

var zzC17Pool = []zzC17Pat{
	{"/a", false}, {"/u/{id}", false}, {"/u/{nm}", false}, {"/u/{-id}", false}, {"/u/{id}/x", false},
	{"/p/{y:\\d+}/e", false}, {"/p/{-x:\\d+}/e", false}, {"/p/{x:\\d*}/e", false}, {"/new", false}, {"/u/m", false}, {"/q/a", false},
	{"/{}", true}, {"/{a}{b}", true}, {"/{a}/{a}", true}, {"/r/{z:[}", true}, {"", true}, {"/{:x}", true},
}

var zzC17Setups = [][]zzOp{
	{zzH("/a", "GET"), zzH("/u/{id}", "GET", "POST")},
	{zzH("/p/{x:\\d+}/e", "GET")},
	{zzH("/u/{id}", "DELETE")},
	{zzH("/a", "GET"), zzH("/b", "GET"), zzH("/c", "GET"), zzH("/d", "GET"), zzH("/e", "GET"), zzH("/u/{id}/x", "PUT")},
	{zzH("/q/au", "GET"), zzH("/q/av", "POST")}, // /q/a exists only as the inner node of the split
}

// zzSameShape: identical up to parameter names and the '-' flag.
func zzSameShape(p, q string) bool {
	a, b := zzTokenize(p), zzTokenize(q)
	if len(a) != len(b) {
		return false
	}
	for i := range a {
		if a[i].param != b[i].param || a[i].lit != b[i].lit || a[i].rule != b[i].rule {
			return false
		}
	}
	return true
}

func zzValidMethod(x string) bool {
	return x == "GET" || x == "POST" || x == "DELETE" || x == "PUT" || x == "PATCH" || x == "CONNECT" || x == "TRACE"
}

// zzState renders everything observable about the table: Routes() and the Allow
// header of every live pattern (through OPTIONS and through a 405).
func zzState(r *Router[*hnd], m *zzModel) string {
	rs := r.Routes()
	s := "n=" + string(rune('0'+len(rs)))
	for _, c := range zzC17Pool {
		if ms, ok := rs[c.p]; ok {
			s += "|" + c.p + "=" + zzJoin(ms)
		}
	}
	for _, x := range []string{"/b", "/c", "/d", "/e", "/q/au", "/q/av"} {
		if ms, ok := rs[x]; ok {
			s += "|" + x + "=" + zzJoin(ms)
		}
	}
	for _, rt := range m.routes {
		wp := zzWitness(rt.p)
		_, w := zzServe(r, zzReq("OPTIONS", wp))
		s += "|O:" + w.h.Get("Allow")
		_, w = zzServe(r, zzReq("CONNECT", wp))
		s += "|5:" + w.h.Get("Allow")
	}
	return s
}

// zzC17Pre: registrations that are rejected for their method but may leave nodes behind.
var zzC17Pre = []string{"", "/u/{nm}", "/u/{-id}", "/p/{y:\\d+}/e", "/u/{id}/x"}

// ZZC17(n): n = trace*1000000 + pre*100000 + setup*10000 + maxMethods*1000 + maxLen of the symbolic probe path.
func ZZC17(n int) {
	// n >= 1000000: the router has WithTrace, which reserves TRACE; method lists may then name it
	trace := n >= 1000000
	n %= 1000000
	r := zzNewRouter("r")
	if trace {
		r = zzNewRouter("r", WithTrace[*hnd](&hnd{id: idTrc}))
	}
	m := &zzModel{}
	if pre := zzC17Pre[n/100000]; pre != "" {
		p, rt := zzGuard(func() { r.Handle(pre, &hnd{id: 70}, nil, "BOGUS") })
		zzv.Assert(p && !rt, "pre:unknown-method-accepted")
	}
	n %= 100000
	for i, op := range zzC17Setups[n/10000] {
		zzApply(r, m, op, i+1)
	}
	cand := zzC17Pool[zzv.Choice("pat", len(zzC17Pool))]
	nm := 1 + zzv.Choice("nm", n/1000%10)
	var ms []string
	bad, dup := false, false
	for i := 0; i < nm; i++ {
		var x string
		nch := 5
		if trace {
			nch = 6
		}
		switch c := zzv.Choice("meth", nch); c {
		case 0:
			x = "GET"
		case 1:
			x = "POST"
		case 2:
			x = "HEAD"
		case 3:
			x = "OPTIONS"
		case 5:
			x = "TRACE"
		default:
			// an arbitrary method string in single-entry lists, a fixed unknown name in longer ones
			if nm == 1 {
				x = zzv.Bytes("mfree", 3)
			} else {
				x = "BOGUS"
			}
		}
		if !zzValidMethod(x) || (trace && x == "TRACE") {
			bad = true
		}
		if m.handlerID(cand.p, x) != 0 && x != "HEAD" {
			dup = true
		}
		for _, y := range ms {
			if y == x {
				dup = true
			}
		}
		ms = append(ms, x)
	}
	ambiguous, onlyRoute := false, false
	for _, rt := range m.routes {
		if rt.p != cand.p && zzSameShape(rt.p, cand.p) {
			ambiguous = true
			onlyRoute = len(m.routes) == 1
		}
	}

	path, pm := "/a", "GET" // maxLen 0: a fixed probe (runs that spend their budget on longer method lists)
	if n%100 > 0 {
		path = zzv.Bytes("p", n%100)
		pm = zzProbeMethods[zzv.Choice("m", 4)]
	}
	zzv.Assume(path != "" && path != "*")
	before := zzState(r, m)
	ob, wb := zzServe(r, zzReq(pm, path))

	var rec any
	func() {
		defer func() { rec = recover() }()
		r.Handle(cand.p, &hnd{id: 50}, nil, ms...)
	}()

	mustReject := cand.malformed || bad || dup || (ambiguous && onlyRoute)
	mustAccept := !cand.malformed && !bad && !dup && !ambiguous
	if rec != nil {
		zzv.Cover("rejected")
		zzv.Assert(!zzv.IsRuntime(rec), "rejected-with-a-runtime-fault")
		zzv.Assert(!mustAccept, "valid-unambiguous-registration-rejected")
		// nothing changed
		zzv.Assert(zzState(r, m) == before, "rejected-Handle-changed-Routes-or-Allow")
		oa, wa := zzServe(r, zzReq(pm, path))
		same := oa.id == ob.id && oa.node == ob.node && wa.status == wb.status && oa.params.equal(ob.params) && (!oa.node || oa.pattern == ob.pattern)
		zzv.Assert(same, "rejected-Handle-changed-a-dispatch-outcome")
		zzv.Assert(wa.h.Get("Allow") == wb.h.Get("Allow"), "rejected-Handle-changed-an-Allow-header")
		zzExpectDispatch("after-reject", m, path, pm, oa)
		return
	}
	zzv.Cover("accepted")
	zzv.Assert(!mustReject, "invalid-duplicate-or-ambiguous-registration-accepted")
	if ambiguous {
		return // accepted although ambiguous with one of several routes: dispatch is then unspecified
	}
	m.add(cand.p, 50, ms...)
	zzCheckRoutes("accepted", r, m, trace)
	oa, _ := zzServe(r, zzReq(pm, path))
	zzExpectDispatch("after-accept", m, path, pm, oa)
}
