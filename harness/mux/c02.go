//go:build verif

package mux

import (
	zzv "github.com/issue9/mux/v9/internal/zzverif"
)

// ---- reference resolver: works on pattern strings only, never builds a tree ----

type rcand struct {
	id   int
	rest string // remaining pattern text
}

type rparam struct{ k, v string }

type routcome struct {
	id int
	ps []rparam
}

func tokEnd(s string) int { // s[0]=='{'
	for i := 0; i < len(s); i++ {
		if s[i] == '}' {
			return i + 1
		}
	}
	return len(s)
}

// parse "{name:rule}" -> name (without '-'), rule, ignore
func tokParts(tok string) (name, rule string, ignore bool) {
	in := tok[1 : len(tok)-1]
	for i := 0; i < len(in); i++ {
		if in[i] == ':' {
			name, rule = in[:i], in[i+1:]
			goto done
		}
	}
	name = in
done:
	if name[0] == '-' {
		ignore = true
		name = name[1:]
	}
	return
}

const (
	kInter = 1
	kRegex = 2
	kNamed = 3
)

func tokKind(rule string) int {
	switch rule {
	case "":
		return kNamed
	case "digit", "word", "any", "u":
		return kInter
	}
	return kRegex
}

func accepts(kind int, rule, v string) bool { return zzValueOK(rule, v) }

func litRun(s string) string { // literal text up to next '{'
	for i := 0; i < len(s); i++ {
		if s[i] == '{' {
			return s[:i]
		}
	}
	return s
}

func lcp(a, b string) string {
	n := 0
	for n < len(a) && n < len(b) && a[n] == b[n] {
		n++
	}
	return a[:n]
}

func withParam(ps []rparam, k, v string) []rparam {
	out := make([]rparam, 0, len(ps)+1)
	out = append(out, ps...)
	return append(out, rparam{k, v})
}

func refResolve(cs []rcand, p string, ps []rparam) []routcome {
	var res []routcome
	// 1. literal: at most one group is selected by p[0]; consume one byte
	if len(p) > 0 {
		var g []rcand
		for _, c := range cs {
			if len(c.rest) > 0 && c.rest[0] != '{' && c.rest[0] == p[0] {
				g = append(g, rcand{c.id, c.rest[1:]})
			}
		}
		if len(g) > 0 {
			res = refResolve(g, p[1:], ps)
		}
	}
	// 2..4 parameter kinds in priority order
	for kind := kInter; kind <= kNamed && len(res) == 0; kind++ {
		// group by (token, first byte after / END)
		done := make([]bool, len(cs))
		for i, c := range cs {
			if done[i] || len(c.rest) == 0 || c.rest[0] != '{' {
				continue
			}
			te := tokEnd(c.rest)
			tok, after := c.rest[:te], c.rest[te:]
			name, rule, ignore := tokParts(tok)
			if tokKind(rule) != kind {
				continue
			}
			var g []rcand
			suffix := litRun(after)
			for j := i; j < len(cs); j++ {
				d := cs[j]
				if done[j] || len(d.rest) < te || d.rest[:te] != tok {
					continue
				}
				da := d.rest[te:]
				if (len(after) == 0) != (len(da) == 0) || (len(after) > 0 && da[0] != after[0]) {
					continue
				}
				done[j] = true
				g = append(g, d)
				suffix = lcp(suffix, litRun(da))
			}
			adv := te + len(suffix)
			next := make([]rcand, len(g))
			for j, d := range g {
				next[j] = rcand{d.id, d.rest[adv:]}
			}
			if len(suffix) == 0 { // parameter ends the pattern: takes the whole rest
				if accepts(kind, rule, p) {
					nps := ps
					if !ignore {
						nps = withParam(ps, name, p)
					}
					res = append(res, refResolve(next, "", nps)...)
				}
				continue
			}
			// shortest value after which the suffix occurs and the constraint accepts
			for k := 0; k+len(suffix) <= len(p); k++ {
				if p[k:k+len(suffix)] != suffix {
					continue
				}
				if !accepts(kind, rule, p[:k]) {
					continue
				}
				nps := ps
				if !ignore {
					nps = withParam(ps, name, p[:k])
				}
				res = append(res, refResolve(next, p[k+len(suffix):], nps)...)
				break // never widen
			}
		}
	}
	// a route that ends exactly here
	if len(p) == 0 {
		for _, c := range cs {
			if len(c.rest) == 0 {
				res = append(res, routcome{c.id, ps})
			}
		}
	}
	return res
}

func sameOutcome(o routcome, id int, ps zzParamsLike) bool {
	if o.id != id || len(o.ps) != ps.Count() {
		return false
	}
	for _, kv := range o.ps {
		v, ok := ps.Get(kv.k)
		if !ok || v != kv.v {
			return false
		}
	}
	return true
}

// zzC02Pool: patterns that share prefixes, split each other and compete.
var zzC02Pool = []string{
	"/u/{id}/{p:\\d+}",     // 1
	"/u/{id}/{a}/l",        // 2
	"/u/me",                // 3
	"/k{n:digit}",          // 4
	"/u/{id}",              // 5
	"/f/{r:[a-z]+}.h",      // 6
	"/u/{id}/x",            // 7
	"/u/{n:digit}/x",       // 8
	"/u/{-q:\\d+}/y",       // 9
	"/f/{r:[a-z]+}.j",      // 10
	"/u/{w:word}",          // 11
	"/f/{r:[a-z]+}",        // 12
	"/u/m{z}",              // 13
	"/{s}-{t}",             // 14
	"/k{n:digit}/{e:\\w*}", // 15
}

// zzC02Bundle: >= 5 literal siblings (first-byte index) next to parameter siblings.
var zzC02Bundle = []string{"/u/a", "/u/b", "/u/c", "/u/d", "/u/e1", "/u/e2"}

// zzC02Tables: add-only tables (registration order matters). The first 16 are 8 selections
// from the pool in two orders; the rest target the first-byte index, deep literal splits,
// shared suffixes and the three bundled interceptors.
var zzC02Tables = [][]string{}

func init() {
	pick := func(ix ...int) []string {
		var out []string
		for _, i := range ix {
			if i == 0 {
				out = append(out, zzC02Bundle...)
			} else {
				out = append(out, zzC02Pool[i-1])
			}
		}
		return out
	}
	for _, t := range [][]int{{1, 2, 3, 4}, {4, 3, 2, 1}, {6, 10, 12, 5}, {5, 12, 10, 6}, {0, 5, 7, 8}, {8, 7, 0, 5}, {11, 8, 5, 9}, {9, 5, 8, 11},
		{13, 3, 5, 7}, {7, 5, 3, 13}, {14, 4, 15}, {15, 4, 14}, {1, 9, 8, 2}, {2, 8, 9, 1}, {0, 1, 2, 11}, {11, 2, 0, 1}} {
		zzC02Tables = append(zzC02Tables, pick(t...))
	}
	zzC02Tables = append(zzC02Tables,
		[]string{"/a/x", "/b", "/c", "/d", "/e", "/{p}/y"},                                              // 16: indexed literal with children fails, parameter sibling takes over
		[]string{"/{p}/y", "/e", "/d", "/c", "/b", "/a/x", "/a/{q:digit}"},                              // 17: the same, other order, plus a parameter under the literal
		[]string{"/a", "/b", "/c", "/d", "/{n:digit}", "/{w:word}", "/{r:[a-c]+}", "/{s}"},              // 18: >=5 children, four of them parameters of different kinds
		[]string{"/abc", "/abd", "/ab", "/a", "/abcd/{x}", "/{x}bc"},                                    // 19: deep literal splitting
		[]string{"/{x}bc", "/abcd/{x}", "/a", "/ab", "/abd", "/abc"},                                    // 20: reverse order
		[]string{"/{a}-{b}", "/{a}-x", "/{a}/y", "/{a}"},                                                // 21: one parameter, several suffixes
		[]string{"/{a:any}/1", "/{d:digit}/2", "/{w:word}/3", "/{n}/4", "/{d:digit}"},                   // 22: three interceptors and a named parameter at one position
		[]string{"/u/{id}/{p:\\d+}", "/u/{id}/{p2:\\d+}/z", "/u/{id}/{a}", "/u/{id}", "/u/{id}/"},       // 23: endpoint vs continuing, regexp with and without tail
		[]string{"/f/{id:\\d+}/a", "/f/{id:\\d+}/b", "/f/{p:any}"},                                      // 24: endpoint-leaf interceptor next to a regexp that has children
		[]string{"/f/{p:any}", "/f/{id:\\d+}/b", "/f/{id:\\d+}/a", "/f/{n}"},                            // 25: other order, plus a named endpoint
		[]string{"/u", "/u/{id}/p", "/u/{id}/l"},                                                        // 26: a route node above a route-less parameter node
		[]string{"/a", "/a/b/c", "/a/b/d", "/a/c", "/a/d", "/a/e", "/a/f", "/a/{x}/g"},                  // 27: the same through the first-byte index
		[]string{"/a/u", "/a/su", "/a/sv"},                                                              // 28: the tail of a split node equals the text of an existing sibling
		[]string{"/p/d", "/p/{id}/d", "/p/{id}/c", "/p/{id}"},                                           // 29: the same below a parameter
		[]string{"/i/{n:u}", "/i/{r:[a-c]+}", "/i/{s}", "/i/{n:u}/x", "/w/{m:u}.t"},                     // 30: an arbitrary (uninterpreted) user interceptor
		[]string{"/a/x", "/a/y", "/b/x", "/b/y", "/c/x", "/c/y", "/d/x", "/d/y", "/e/x", "/e/y", "/bb"}, // 31: five non-leaf literal siblings, then a split of one that is not the last
		[]string{"/p/{id}/au", "/p/{id}/{g:\\w+}", "/p/{id}/{n:digit}"},                                 // 32: the literal tail of a split parameter node against later regexp / interceptor siblings
		[]string{"/p/{id}/{n:digit}", "/p/{id}/{g:\\w+}", "/p/{id}/au"},                                 // 33: reverse order
		[]string{"/t/a", "/t/b", "/t/\u4e2d", "/t/c", "/t/d", "/t/{n}"},                                 // 34: an indexed literal that starts with a non-ASCII byte, parameter sibling
		[]string{"/t/d", "/t/\u00e9x", "/t/c", "/t/b", "/t/a"},                                          // 35: exactly five literals, one non-ASCII, no parameter
		[]string{"/{-v:a|bc}/u", "/{-v:a|bc}/w", "/{n}"},                                                // 36: ignored-name regexp with a top-level alternation and literal tails, named fallback
		[]string{"/l/{d:u}-{k}", "/l/{f}", "/n/{d:digit}", "/n/{r:[0-9]+}", "/n/{s}"},                   // 37: an arbitrary interceptor in front of a separator that may occur several times; digit vs regexp vs named
	)
}

// zzC02Probes: concrete request paths per table that lie beyond the symbolic length bound.
var zzC02Probes = map[int][]string{
	22: {"/18446744073709551616/2", "/18446744073709551615/2", "/99999999999999999999"},
	37: {"/n/18446744073709551616", "/n/00000000000000000000001", "/l/a-b-c-d-e", "/l/2024-01-02-rep"},
	18: {"/340282366920938463463374607431768211456"},
}

// ZZC02(n): n = table*100 + maxLen.
func ZZC02(n int) {
	maxLen := n % 100
	pats := zzC02Tables[n/100]
	r := zzNewRouter("r")
	for i, p := range pats {
		r.Handle(p, &hnd{id: i + 1}, nil, "GET")
	}
	path := zzv.Bytes("p", maxLen)
	if probes := zzC02Probes[n/100]; len(probes) > 0 {
		// ... or one of a few concrete paths beyond the length bound (long digit runs, many separators)
		if c := zzv.Choice("probe", 1+len(probes)); c > 0 {
			path = probes[c-1]
		}
	}
	zzv.Assume(path != "" && path != "*")
	o, w := zzServe(r, zzReq("GET", path))
	zzv.Obs("id", o.id)
	zzv.Obs("status", w.status)

	cs := make([]rcand, len(pats))
	for i, p := range pats {
		cs[i] = rcand{i + 1, p}
	}
	adm := refResolve(cs, path, nil)
	if !o.node {
		zzv.Cover("404")
		zzv.Assert(o.id == id404, "404-handler")
		zzv.Assert(len(adm) == 0, "404-but-the-documented-procedure-finds-a-route")
		return
	}
	zzv.Cover("matched")
	zzv.Obs("pattern", o.pattern)
	if o.params.Count() > 0 {
		zzv.Cover("matched-with-params")
	}
	ok := false
	for _, a := range adm {
		if sameOutcome(a, o.id, o.params) {
			ok = true
		}
	}
	zzv.Assert(ok, "outcome-not-admissible-under-the-documented-priority")
}
