//go:build verif

package mux

import (
	zzv "github.com/issue9/mux/v9/internal/zzverif"
	"github.com/issue9/mux/v9/types"
)

// ---- reference resolver: works on pattern strings only, never builds a tree ----

type rcand struct {
	id   int
	rest string // remaining pattern text
}

type rparam struct{ k, v string }

type routcome struct {
	id int
	ps []rparam
}

func tokEnd(s string) int { // s[0]=='{'
	for i := 0; i < len(s); i++ {
		if s[i] == '}' {
			return i + 1
		}
	}
	return len(s)
}

// parse "{name:rule}" -> name (without '-'), rule, ignore
func tokParts(tok string) (name, rule string, ignore bool) {
	in := tok[1 : len(tok)-1]
	for i := 0; i < len(in); i++ {
		if in[i] == ':' {
			name, rule = in[:i], in[i+1:]
			goto done
		}
	}
	name = in
done:
	if name[0] == '-' {
		ignore = true
		name = name[1:]
	}
	return
}

const (
	kInter = 1
	kRegex = 2
	kNamed = 3
)

func tokKind(rule string) int {
	switch rule {
	case "":
		return kNamed
	case "digit", "word", "any":
		return kInter
	}
	return kRegex
}

func accepts(kind int, rule, v string) bool { return zzValueOK(rule, v) }

func litRun(s string) string { // literal text up to next '{'
	for i := 0; i < len(s); i++ {
		if s[i] == '{' {
			return s[:i]
		}
	}
	return s
}

func lcp(a, b string) string {
	n := 0
	for n < len(a) && n < len(b) && a[n] == b[n] {
		n++
	}
	return a[:n]
}

func withParam(ps []rparam, k, v string) []rparam {
	out := make([]rparam, 0, len(ps)+1)
	out = append(out, ps...)
	return append(out, rparam{k, v})
}

func refResolve(cs []rcand, p string, ps []rparam) []routcome {
	var res []routcome
	// 1. literal: at most one group is selected by p[0]; consume one byte
	if len(p) > 0 {
		var g []rcand
		for _, c := range cs {
			if len(c.rest) > 0 && c.rest[0] != '{' && c.rest[0] == p[0] {
				g = append(g, rcand{c.id, c.rest[1:]})
			}
		}
		if len(g) > 0 {
			res = refResolve(g, p[1:], ps)
		}
	}
	// 2..4 parameter kinds in priority order
	for kind := kInter; kind <= kNamed && len(res) == 0; kind++ {
		// group by (token, first byte after / END)
		done := make([]bool, len(cs))
		for i, c := range cs {
			if done[i] || len(c.rest) == 0 || c.rest[0] != '{' {
				continue
			}
			te := tokEnd(c.rest)
			tok, after := c.rest[:te], c.rest[te:]
			name, rule, ignore := tokParts(tok)
			if tokKind(rule) != kind {
				continue
			}
			var g []rcand
			suffix := litRun(after)
			for j := i; j < len(cs); j++ {
				d := cs[j]
				if done[j] || len(d.rest) < te || d.rest[:te] != tok {
					continue
				}
				da := d.rest[te:]
				if (len(after) == 0) != (len(da) == 0) || (len(after) > 0 && da[0] != after[0]) {
					continue
				}
				done[j] = true
				g = append(g, d)
				suffix = lcp(suffix, litRun(da))
			}
			adv := te + len(suffix)
			next := make([]rcand, len(g))
			for j, d := range g {
				next[j] = rcand{d.id, d.rest[adv:]}
			}
			if len(suffix) == 0 { // parameter ends the pattern: takes the whole rest
				if accepts(kind, rule, p) {
					nps := ps
					if !ignore {
						nps = withParam(ps, name, p)
					}
					res = append(res, refResolve(next, "", nps)...)
				}
				continue
			}
			// shortest value after which the suffix occurs and the constraint accepts
			for k := 0; k+len(suffix) <= len(p); k++ {
				if p[k:k+len(suffix)] != suffix {
					continue
				}
				if !accepts(kind, rule, p[:k]) {
					continue
				}
				nps := ps
				if !ignore {
					nps = withParam(ps, name, p[:k])
				}
				res = append(res, refResolve(next, p[k+len(suffix):], nps)...)
				break // never widen
			}
		}
	}
	// a route that ends exactly here
	if len(p) == 0 {
		for _, c := range cs {
			if len(c.rest) == 0 {
				res = append(res, routcome{c.id, ps})
			}
		}
	}
	return res
}


func sameOutcome(o routcome, id int, ps types.Params) bool {
	if o.id != id || len(o.ps) != ps.Count() {
		return false
	}
	for _, kv := range o.ps {
		v, ok := ps.Get(kv.k)
		if !ok || v != kv.v {
			return false
		}
	}
	return true
}

// zzC02Pool: patterns that share prefixes, split each other and compete.
var zzC02Pool = []string{
	"/u/{id}/{p:\\d+}", // 1
	"/u/{id}/{a}/l",    // 2
	"/u/me",            // 3
	"/k{n:digit}",      // 4
	"/u/{id}",          // 5
	"/f/{r:[a-z]+}.h",  // 6
	"/u/{id}/x",        // 7
	"/u/{n:digit}/x",   // 8
	"/u/{-q:\\d+}/y",   // 9
	"/f/{r:[a-z]+}.j",  // 10
	"/u/{w:word}",      // 11
	"/f/{r:[a-z]+}",    // 12
	"/u/m{z}",          // 13
	"/{s}-{t}",         // 14
	"/k{n:digit}/{e:\\w*}", // 15
}

// zzC02Bundle: >= 5 literal siblings (first-byte index) next to parameter siblings.
var zzC02Bundle = []string{"/u/a", "/u/b", "/u/c", "/u/d", "/u/e1", "/u/e2"}

// ZZC02(n): n = maxLen*1000000*... : the table is the base-16 digit string of n/100
// (digit d = pool entry d, least significant first; digit 0 at the top = add the
// literal bundle first), maxLen = n%100.
func ZZC02(n int) {
	maxLen := n % 100
	var pats []string
	for c := n / 100; c > 0; c /= 16 {
		if c%16 == 0 {
			pats = append(pats, zzC02Bundle...)
			continue
		}
		pats = append(pats, zzC02Pool[c%16-1])
	}
	r := zzNewRouter("r")
	for i, p := range pats {
		r.Handle(p, &hnd{id: i + 1}, nil, "GET")
	}
	path := zzv.Bytes("p", maxLen)
	zzv.Assume(path != "" && path != "*")
	o, w := zzServe(r, zzReq("GET", path))
	zzv.Obs("id", o.id)
	zzv.Obs("status", w.status)

	cs := make([]rcand, len(pats))
	for i, p := range pats {
		cs[i] = rcand{i + 1, p}
	}
	adm := refResolve(cs, path, nil)
	if !o.node {
		zzv.Cover("404")
		zzv.Assert(o.id == id404, "404-handler")
		zzv.Assert(len(adm) == 0, "404-but-the-documented-procedure-finds-a-route")
		return
	}
	zzv.Cover("matched")
	zzv.Obs("pattern", o.pattern)
	if o.params.Count() > 0 {
		zzv.Cover("matched-with-params")
	}
	ok := false
	for _, a := range adm {
		if sameOutcome(a, o.id, o.params) {
			ok = true
		}
	}
	zzv.Assert(ok, "outcome-not-admissible-under-the-documented-priority")
}
