//go:build verif

package mux

import (
	zzv "github.com/issue9/mux/v9/internal/zzverif"
)

// ---- C01: dispatch soundness ----

type zzOp struct {
	k  int // 0 Handle, 1 Remove, 2 Clean, 3 Prefix(p).Clean
	p  string
	ms []string
}

func zzH(p string, ms ...string) zzOp  { return zzOp{0, p, ms} }
func zzRm(p string, ms ...string) zzOp { return zzOp{1, p, ms} }
func zzCl() zzOp                       { return zzOp{k: 2} }
func zzPCl(p string) zzOp              { return zzOp{k: 3, p: p} }

// zzTables: route-table histories. Literals are 1-2 bytes so that symbolic
// paths of 8-10 bytes reach every node kind, split shape and backtracking shape.
var zzTables = [][]zzOp{
	// 0: sibling parameter branches under a shared captured prefix (backtrack after capture)
	{zzH("/u/{id}/{p:\\d+}", "GET"), zzH("/u/{id}/{a}/l", "GET"), zzH("/u/me", "GET", "POST"), zzH("/k{n:digit}", "GET")},
	// 1: regexp followed by literal text containing a regexp metacharacter; ignored names
	{zzH("/p/{id:\\d+}.h", "GET"), zzH("/p/{id:\\d+}.j", "POST"), zzH("/q/{-x:[a-z]+}/e", "GET"), zzH("/q/{y}", "DELETE")},
	// 2: six literal siblings (first-byte index) + parameter sibling, then removal
	{zzH("/a", "GET"), zzH("/b", "GET"), zzH("/c", "GET"), zzH("/d", "GET"), zzH("/e", "GET"), zzH("/f", "GET"), zzH("/{x}", "GET"), zzRm("/a")},
	// 3: interceptor vs regexp vs named at one position, endpoint vs continuing
	{zzH("/i/{n:digit}", "GET"), zzH("/i/{r:[a-c]+}", "GET"), zzH("/i/{s}", "GET"), zzH("/i/{n:digit}/x", "POST"), zzH("/i/{s}/x", "PUT")},
	// 4: methods added after a split, removal of a method, non-slash separators
	{zzH("/p/au", "GET"), zzH("/p/ab", "GET"), zzH("/p/au", "POST"), zzRm("/p/ab", "GET"), zzH("/s/{a}-{b}", "GET"), zzH("/s/{a}-{b}.x", "GET")},
	// 5: clean and re-register; routes not starting with '/'
	{zzH("x{y}", "GET"), zzH("/a/{b}", "GET"), zzCl(), zzH("/a/{c}/d", "GET"), zzH("xy", "POST")},
	// 6: word interceptor with suffix, empty-matching regexp at the end, prefix clean
	{zzH("/w/{n:word}.t", "GET"), zzH("/w/{r:\\w*}", "GET"), zzH("/v/1", "GET"), zzH("/v/{z}", "GET"), zzPCl("/v")},
	// 7: deep backtracking: three levels of parameters with diverging tails
	{zzH("/{a}/{b}/{c}/1", "GET"), zzH("/{a}/{b}/2", "GET"), zzH("/{a}/3", "GET"), zzH("/{a}/{b:\\d+}/{c}/4", "GET")},
	// 8: indexed parent, a handler-less branch is pruned over two removals
	{zzH("/m/1", "GET"), zzH("/m/2", "GET"), zzH("/m/3", "GET"), zzH("/m/4", "GET"), zzH("/m/5", "GET"), zzH("/m/6a", "GET"), zzH("/m/6b", "GET"), zzH("/m/{id}", "GET"), zzRm("/m/6a"), zzRm("/m/6b")},
	// 9: the same with literal siblings only (the pruned branch was the last child)
	{zzH("/m/1", "GET"), zzH("/m/2", "GET"), zzH("/m/3", "GET"), zzH("/m/4", "GET"), zzH("/m/5", "GET"), zzH("/m/6", "GET"), zzH("/m/7a", "GET"), zzH("/m/7b", "GET"), zzRm("/m/7a"), zzRm("/m/7b")},
	// 10, 11: the tail of a split node equals the text of an existing sibling (literal / below a parameter)
	{zzH("/a/u", "GET"), zzH("/a/su", "POST"), zzH("/a/sv", "GET")},
	{zzH("/p/d", "GET"), zzH("/p/{id}/d", "GET"), zzH("/p/{id}/c", "POST"), zzH("/p/{id}", "DELETE")},
	// 12: an arbitrary (uninterpreted) user-defined interceptor "u" next to regexp and named parameters
	{zzH("/i/{n:u}", "GET"), zzH("/i/{r:[a-c]+}", "GET"), zzH("/i/{s}", "GET"), zzH("/i/{n:u}/x", "POST"), zzH("/w/{m:u}.t", "GET"), zzH("/v/{-k:u}/e", "GET")},
	// 13: an indexed literal child that consumes text and then fails below itself, next to an endpoint parameter
	{zzH("/a/x", "GET"), zzH("/a/z", "GET"), zzH("/b", "GET"), zzH("/c", "GET"), zzH("/d", "GET"), zzH("/e", "GET"), zzH("/{p}", "GET")},
	// 14: routes under a prefix that ends right after a parameter are cleaned; the parameter route itself stays
	{zzH("/p/{id}", "GET"), zzH("/p/{id}/a", "GET"), zzH("/p/{id}/t", "POST"), zzPCl("/p/{id}/")},
	// 15: ignored-name regexps with a top-level alternation, with a literal tail and with a following parameter
	{zzH("/f/{-k:a|b}/l", "GET"), zzH("/g/{-k:a|bc}x/{n}", "GET"), zzH("/h/{k:a|b}/l", "GET")},
	// 16: exactly five literal siblings, one removed (the index threshold is crossed downwards)
	{zzH("/a", "GET"), zzH("/b", "GET"), zzH("/c", "GET"), zzH("/d", "GET"), zzH("/e", "GET"), zzRm("/b")},
	// 17: ignored-name regexps whose rule has its own capture group; a capturing one beside them
	{zzH("/i/{n}.{-e:(j|p)}", "GET"), zzH("/j/{-e:(a)(b)?}/{n}", "GET"), zzH("/k/{e:(j|p)}", "GET")},
	// 18: an endpoint whose only children lead through handler-less nodes that can eat the whole rest of the path
	{zzH("/p", "GET"), zzH("/p/{id}/a", "GET"), zzH("/p/{id}/e", "GET"), zzH("/q", "GET"), zzH("/q/b", "GET"), zzH("/q/b/c", "POST"), zzRm("/q/b")},
	// 19: a prefix that is itself a route (ending at a node boundary) is cleaned, literal and parameter prefix
	{zzH("/v", "GET"), zzH("/v/1", "GET"), zzH("/v/{z}", "POST"), zzH("/w/{k:\\d+}", "GET"), zzH("/w/{k:\\d+}/u", "GET"), zzH("/x", "GET"), zzPCl("/v"), zzPCl("/w/{k:\\d+}")},
	// 20: five literal siblings, one of which starts with a non-ASCII byte, and a parameter sibling
	{zzH("/t/a", "GET"), zzH("/t/b", "GET"), zzH("/t/\u4e2d", "GET"), zzH("/t/c", "GET"), zzH("/t/d", "GET"), zzH("/t/{n}", "POST")},
	// 21: one removal prunes two levels below an indexed parent (branch registered first / last)
	{zzH("/c/{id}", "GET"), zzH("/a", "GET"), zzH("/b", "GET"), zzH("/d", "GET"), zzH("/e", "GET"), zzRm("/c/{id}")},
	{zzH("/a", "GET"), zzH("/b", "GET"), zzH("/d", "GET"), zzH("/e", "GET"), zzH("/c/{id}", "GET"), zzH("/{x}", "POST"), zzRm("/c/{id}")},
	// 23: removals that name methods a route does not (or cannot) hold: TRACE, HEAD, OPTIONS, next to real ones
	{zzH("/a", "GET", "POST"), zzH("/b/{x}", "GET", "DELETE"), zzRm("/a", "TRACE"), zzRm("/b/{x}", "DELETE", "TRACE", "HEAD"), zzRm("/a", "OPTIONS", "POST")},
	// 24: ignored named parameters that end the pattern (alone, behind a capturing one), an ignored interceptor one
	{zzH("/f/{-p}", "GET"), zzH("/g/{-d:digit}", "POST"), zzH("/h/{i}/{-r}", "GET")},
}

var zzMethods = []string{"GET", "HEAD", "POST", "OPTIONS", "DELETE", "PUT", "TRACE", "", "BOGUS"}

func zzBuild(ops []zzOp) (*Router[*hnd], *zzModel) {
	r := zzNewRouter("r")
	m := &zzModel{}
	for i, op := range ops {
		switch op.k {
		case 0:
			r.Handle(op.p, &hnd{id: i + 1}, nil, op.ms...)
			m.add(op.p, i+1, op.ms...)
		case 1:
			r.Remove(op.p, op.ms...)
			m.remove(op.p, op.ms...)
		case 2:
			r.Clean()
			m.clean("")
		case 3:
			r.Prefix(op.p).Clean()
			m.clean(op.p)
		}
	}
	return r, m
}

// ZZC01(n): n = table*100 + maxLen.
func ZZC01(n int) {
	ops := zzTables[n/100]
	maxLen := n % 100
	r, model := zzBuild(ops)

	path := zzv.Bytes("p", maxLen)
	mi := zzv.Choice("m", len(zzMethods)+1)
	var method string
	if mi < len(zzMethods) {
		method = zzMethods[mi]
	} else {
		method = zzv.Bytes("mfree", 3)
	}
	o, w := zzServe(r, zzReq(method, path))

	zzv.Assert(o.calls == 1, "called-once")
	zzv.Obs("id", o.id)
	zzv.Obs("status", w.status)
	if !o.node {
		zzv.Cover("404")
		zzv.Assert(o.id == id404, "no-node-means-404-handler")
		zzv.Assert(o.params.Count() == 0, "404-reports-params")
		return
	}
	zzv.Obs("pattern", o.pattern)
	zzv.Assert(o.id != id404, "node-with-404-handler")
	if path == "*" || path == "" {
		// the server-wide OPTIONS request is not a matched route: it reports the
		// router's internal node (empty pattern) and no parameters.
		zzv.Cover("options-star")
		zzv.Assert(method == "OPTIONS" && o.id == idOpt, "star-served-for-non-OPTIONS")
		zzv.Assert(o.pattern == "" && o.params.Count() == 0, "star-reports-route-or-params")
		return
	}
	zzv.Assert(model.find(o.pattern) >= 0, "reported-pattern-not-live")
	zzCheckRoute("route", o.pattern, path, o.params)
	switch {
	case o.id > 0:
		zzv.Cover("served")
		zzv.Assert(model.handlerID(o.pattern, method) == o.id, "handler-not-the-registered-one")
		if o.params.Count() > 0 {
			zzv.Cover("served-with-params")
		}
	case o.id == id405:
		zzv.Cover("405")
		zzv.Assert(model.handlerID(o.pattern, method) == 0 && method != "OPTIONS", "405-for-a-served-method")
	case o.id == idOpt:
		zzv.Cover("options")
		zzv.Assert(method == "OPTIONS", "options-handler-for-other-method")
	default:
		zzv.Assert(false, "unknown-handler")
	}
}
