//go:build verif

package mux

import (
	zzv "github.com/issue9/mux/v9/internal/zzverif"
	"github.com/issue9/mux/v9/types"
)

// ---- C09: middleware onion order ----

var zzMWCalls map[string]int

// zzCMW: a counting middleware factory; the tag it prepends records its arguments.
func zzCMW(tag string) types.Middleware[*hnd] {
	return types.MiddlewareFunc[*hnd](func(next *hnd, method, pattern, router string) *hnd {
		zzMWCalls[tag]++
		return &hnd{id: next.id, chain: append([]string{tag + "|" + method + "|" + pattern + "|" + router}, next.chain...), node: next.node}
	})
}

func zzCMWs(tags ...string) []types.Middleware[*hnd] {
	out := make([]types.Middleware[*hnd], len(tags))
	for i, t := range tags {
		out[i] = zzCMW(t)
	}
	return out
}

// zzReg: what the oracle remembers of one registration.
type zzReg struct {
	pattern string
	method  string
	applied []string // route ++ prefix middlewares in application order (innermost first)
	id      int
}

type zzC09State struct {
	router string
	use    []string // Use'd tags in call order
	regs   []zzReg
	first  map[string][]string // pattern -> applied list of the call that first registered it
	order  []string            // patterns in first-registration order
}

func (s *zzC09State) reg(pattern string, id int, applied []string, methods ...string) {
	if _, ok := s.first[pattern]; !ok {
		s.first[pattern] = applied
		s.order = append(s.order, pattern)
	}
	for _, m := range methods {
		s.regs = append(s.regs, zzReg{pattern, m, applied, id})
	}
}

// unreg forgets a removed method; a pattern that lost its last method loses its OPTIONS/405 too.
func (s *zzC09State) unreg(pattern, method string) {
	var keep []zzReg
	left := false
	for _, r := range s.regs {
		if r.pattern == pattern && r.method == method {
			continue
		}
		if r.pattern == pattern {
			left = true
		}
		keep = append(keep, r)
	}
	s.regs = keep
	if !left {
		delete(s.first, pattern)
		var order []string
		for _, p := range s.order {
			if p != pattern {
				order = append(order, p)
			}
		}
		s.order = order
	}
}

func (s *zzC09State) has(pattern, method string) bool {
	for _, r := range s.regs {
		if r.pattern == pattern && r.method == method {
			return true
		}
	}
	return false
}

// expected chain, outermost first: Use (latest first), then applied reversed.
func (s *zzC09State) chain(applied []string, method, pattern string) []string {
	var out []string
	sfx := "|" + method + "|" + pattern + "|" + s.router
	for i := len(s.use) - 1; i >= 0; i-- {
		out = append(out, s.use[i]+sfx)
	}
	for i := len(applied) - 1; i >= 0; i-- {
		out = append(out, applied[i]+sfx)
	}
	return out
}

func zzSameChain(a, b []string) bool {
	if len(a) != len(b) {
		return false
	}
	for i := range a {
		if a[i] != b[i] {
			return false
		}
	}
	return true
}

type zzCounted struct{ seen map[string]int }

func (c *zzCounted) add(chain []string) {
	for _, e := range chain {
		tag := e[:zzIndexByte(e, '|')]
		c.seen[tag]++
	}
}

// zzC09Step applies one program step to router and oracle; false = skipped (duplicate registration).
func zzC09Step(r *Router[*hnd], s *zzC09State, op, i int) bool {
	n := string(rune('0' + i))
	switch op {
	case 0:
		r.Use(zzCMW("U" + n))
		s.use = append(s.use, "U"+n)
	case 1:
		r.Use(zzCMWs("U"+n+"a", "U"+n+"b")...)
		s.use = append(s.use, "U"+n+"a", "U"+n+"b")
	case 2:
		if s.has("/a", "GET") {
			return false
		}
		r.Handle("/a", &hnd{id: 10 + i}, zzCMWs("R"+n+"a", "R"+n+"b"), "GET")
		s.reg("/a", 10+i, []string{"R" + n + "a", "R" + n + "b"}, "GET")
	case 3:
		if s.has("/a", "POST") {
			return false
		}
		r.Post("/a", &hnd{id: 10 + i})
		s.reg("/a", 10+i, nil, "POST")
	case 4:
		if s.has("/p/x", "GET") {
			return false
		}
		p := r.Prefix("/p", zzCMWs("P"+n+"a", "P"+n+"b")...)
		p.Get("/x", &hnd{id: 10 + i}, zzCMW("R"+n))
		s.reg("/p/x", 10+i, []string{"R" + n, "P" + n + "a", "P" + n + "b"}, "GET")
	case 5:
		if s.has("/p/q/{y}", "DELETE") {
			return false
		}
		pp := r.Prefix("/p", zzCMW("P"+n)).Prefix("/q", zzCMWs("Q"+n+"a", "Q"+n+"b")...)
		pp.Delete("/{y}", &hnd{id: 10 + i}, zzCMW("R"+n))
		s.reg("/p/q/{y}", 10+i, []string{"R" + n, "Q" + n + "a", "Q" + n + "b", "P" + n}, "DELETE")
	case 6:
		if s.has("/r/{id}", "GET") || s.has("/r/{id}", "POST") {
			return false
		}
		res := r.Resource("/r/{id}", zzCMWs("S"+n+"a", "S"+n+"b")...)
		res.Get(&hnd{id: 10 + i}, zzCMW("R"+n))
		s.reg("/r/{id}", 10+i, []string{"R" + n, "S" + n + "a", "S" + n + "b"}, "GET")
		res.Post(&hnd{id: 20 + i})
		s.reg("/r/{id}", 20+i, []string{"S" + n + "a", "S" + n + "b"}, "POST")
	case 7:
		if s.has("/p/z", "PUT") {
			return false
		}
		r.Prefix("/p", zzCMW("P"+n)).Resource("/z", zzCMW("T"+n)).Put(&hnd{id: 10 + i})
		s.reg("/p/z", 10+i, []string{"T" + n, "P" + n}, "PUT")
	case 9:
		if s.has("/s/1/x", "GET") {
			return false
		}
		// two nested prefixes receive the same caller-owned slice, which has spare capacity
		common := make([]types.Middleware[*hnd], 0, 4)
		common = append(common, zzCMW("C"+n+"a"), zzCMW("C"+n+"b"))
		p1 := r.Prefix("/s", zzCMW("P"+n)).Prefix("/1", common...)
		p2 := r.Prefix("/t", zzCMW("Q"+n)).Prefix("/2", common...)
		p1.Get("/x", &hnd{id: 10 + i})
		s.reg("/s/1/x", 10+i, []string{"C" + n + "a", "C" + n + "b", "P" + n}, "GET")
		p2.Get("/y", &hnd{id: 30 + i})
		s.reg("/t/2/y", 30+i, []string{"C" + n + "a", "C" + n + "b", "Q" + n}, "GET")
	case 10: // (setup only) a route below /a, so that the node of /a outlives the removal of its methods
		r.Handle("/a/b", &hnd{id: 10 + i}, zzCMWs("B"+n), "GET")
		s.reg("/a/b", 10+i, []string{"B" + n}, "GET")
	case 8:
		if s.has("/a", "GET") || s.has("/a", "POST") || s.has("/a", "DELETE") {
			return false
		}
		r.Any("/a", &hnd{id: 10 + i}, zzCMW("R"+n))
		s.reg("/a", 10+i, []string{"R" + n}, "GET", "POST", "DELETE", "PUT", "PATCH", "CONNECT")
	}
	return true
}

// zzC09Check invokes every handler kind of every route and compares chains and ids.
func zzC09Check(h interface {
	ServeHTTP(w *recW, method, path string) *zzObs
}, s *zzC09State, trace, star bool, cnt *zzCounted) {
	for _, rg := range s.regs {
		o := h.ServeHTTP(newW(), rg.method, zzWitness(rg.pattern))
		zzv.Assert(o.id == rg.id, "route:wrong-handler")
		zzv.Assert(zzSameChain(o.chain, s.chain(rg.applied, rg.method, rg.pattern)), "route:middleware-order-or-arguments")
		cnt.add(o.chain)
		if rg.method == "GET" {
			o := h.ServeHTTP(newW(), "HEAD", zzWitness(rg.pattern))
			zzv.Assert(o.id == rg.id, "head:wrong-handler")
			zzv.Assert(zzSameChain(o.chain, s.chain(rg.applied, "HEAD", rg.pattern)), "head:middleware-order-or-arguments")
			cnt.add(o.chain)
		}
	}
	for _, p := range s.order {
		o := h.ServeHTTP(newW(), "OPTIONS", zzWitness(p))
		zzv.Assert(o.id == idOpt, "options:wrong-handler")
		zzv.Assert(zzSameChain(o.chain, s.chain(s.first[p], "OPTIONS", p)), "options:middleware-order-or-arguments")
		cnt.add(o.chain)
		unserved := "PATCH"
		if s.has(p, "PATCH") {
			unserved = "BOGUS"
		}
		o = h.ServeHTTP(newW(), unserved, zzWitness(p))
		zzv.Assert(o.id == id405, "405:wrong-handler")
		zzv.Assert(zzSameChain(o.chain, s.chain(s.first[p], "", p)), "405:middleware-order-or-arguments")
		cnt.add(o.chain)
	}
	o := h.ServeHTTP(newW(), "GET", "/nowhere")
	zzv.Assert(o.id == id404, "404:wrong-handler")
	zzv.Assert(zzSameChain(o.chain, s.chain(nil, "", "")), "404:middleware-order-or-arguments")
	cnt.add(o.chain)
	if star {
		o = h.ServeHTTP(newW(), "OPTIONS", "*")
		zzv.Assert(o.id == idOpt, "star:wrong-handler")
		zzv.Assert(zzSameChain(o.chain, s.chain(nil, "OPTIONS", "")), "star:middleware-order-or-arguments")
		cnt.add(o.chain)
	}
	if trace {
		o = h.ServeHTTP(newW(), "TRACE", "/any/where")
		zzv.Assert(o.id == idTrc, "trace:wrong-handler")
		zzv.Assert(zzSameChain(o.chain, s.chain(nil, "TRACE", "")), "trace:middleware-order-or-arguments")
		cnt.add(o.chain)
	}
}

type zzRouterServe struct{ r *Router[*hnd] }

func (x zzRouterServe) ServeHTTP(w *recW, method, path string) *zzObs {
	o := &zzObs{}
	zzO = o
	x.r.ServeHTTP(w, zzReq(method, path))
	return o
}

// ZZC09(n): n = setup*1000 + trace*100 + program length. Every program over 10 operations.
// setup 1: the programs start on a table where /a was registered, got a route below it, and
// then lost its methods by name (its node is still in the tree, without handlers).
func ZZC09(n int) {
	zzMWCalls = map[string]int{}
	setup := n / 1000
	n %= 1000
	trace := n/100 == 1
	var r *Router[*hnd]
	if trace {
		r = zzNewRouter("rt", WithTrace[*hnd](&hnd{id: idTrc}))
	} else {
		r = zzNewRouter("rt")
	}
	s := &zzC09State{router: "rt", first: map[string][]string{}}
	if setup == 1 {
		zzC09Step(r, s, 2, 7)
		zzC09Step(r, s, 10, 8)
		r.Remove("/a", "GET")
		s.unreg("/a", "GET")
	}
	for i := 0; i < n%100; i++ {
		if !zzC09Step(r, s, zzv.Choice("op", 10), i) {
			zzv.Assume(false)
		}
	}
	zzv.Cover("program")
	if len(s.use) > 0 && len(s.regs) > 0 {
		zzv.Cover("use-and-routes")
	}
	cnt := &zzCounted{seen: map[string]int{}}
	zzC09Check(zzRouterServe{r}, s, trace, true, cnt)
	if setup != 0 {
		return // (handlers removed by the setup were wrapped too)
	}
	// every factory ran exactly once per handler it wraps
	for tag, c := range zzMWCalls {
		zzv.Assert(cnt.seen[tag] == c, "factory-invocations-differ-from-wrapped-handlers")
	}
}

type zzGroupServe struct {
	g      *Group[*hnd]
	prefix string
}

func (x zzGroupServe) ServeHTTP(w *recW, method, path string) *zzObs {
	o := &zzObs{}
	zzO = o
	if path != "*" {
		path = x.prefix + path
	}
	x.g.ServeHTTP(w, zzReq(method, path))
	return o
}

// ZZC09Grp(n): every program of n group operations (Group.Use / New / Add / router Use / Handle).
func ZZC09Grp(n int) {
	zzMWCalls = map[string]int{}
	g := NewGroup[*hnd](zzCall, &hnd{id: id404}, zzB405, zzBOpt)
	var gUse []string
	var ra, rb *Router[*hnd]
	sa := &zzC09State{router: "A", first: map[string][]string{}}
	sb := &zzC09State{router: "B", first: map[string][]string{}}
	// B is built outside the group, with its own Use and a route, and may be added later
	pre := zzNewRouter("B")
	pre.Use(zzCMW("UB0"))
	sb.use = append(sb.use, "UB0")
	pre.Handle("/b", &hnd{id: 5}, zzCMWs("RB"), "GET")
	sb.reg("/b", 5, []string{"RB"}, "GET")
	for i := 0; i < n; i++ {
		k := string(rune('0' + i))
		switch zzv.Choice("op", 6) {
		case 0:
			g.Use(zzCMW("G" + k))
			gUse = append(gUse, "G"+k)
			if ra != nil {
				sa.use = append(sa.use, "G"+k)
			}
			if rb != nil {
				sb.use = append(sb.use, "G"+k)
			}
		case 1:
			zzv.Assume(ra == nil)
			ra = g.New("A", NewPathVersion("", "v1"))
			sa.use = append(sa.use, gUse...)
		case 2:
			zzv.Assume(rb == nil)
			rb = pre
			g.Add(NewPathVersion("", "v2"), rb)
			sb.use = append(sb.use, gUse...)
		case 3:
			zzv.Assume(ra != nil && !sa.has("/a", "GET"))
			ra.Get("/a", &hnd{id: 10 + i}, zzCMW("R"+k))
			sa.reg("/a", 10+i, []string{"R" + k}, "GET")
		case 4:
			zzv.Assume(ra != nil)
			ra.Use(zzCMWs("UA"+k+"a", "UA"+k+"b")...)
			sa.use = append(sa.use, "UA"+k+"a", "UA"+k+"b")
		case 5:
			zzv.Assume(rb != nil && !sb.has("/b", "POST"))
			rb.Prefix("", zzCMW("PB"+k)).Post("/b", &hnd{id: 10 + i})
			sb.reg("/b", 10+i, []string{"PB" + k}, "POST")
		}
	}
	zzv.Cover("group-program")
	cnt := &zzCounted{seen: map[string]int{}}
	if ra != nil {
		zzv.Cover("group-router-A")
		zzC09Check(zzGroupServe{g, "/v1"}, sa, false, false, cnt)
		zzStar(ra, sa, cnt)
	}
	if rb != nil {
		zzv.Cover("group-router-B")
		zzC09Check(zzGroupServe{g, "/v2"}, sb, false, false, cnt)
		zzStar(rb, sb, cnt)
	} else {
		// B never joined the group: its handlers exist all the same (counted for the invocation balance)
		zzC09Check(zzRouterServe{pre}, sb, false, true, cnt)
	}
	// group not-found: only the group's Use middlewares, arguments "", "", ""
	o := zzGroupServe{g, ""}.ServeHTTP(newW(), "GET", "/v9/x")
	gs := &zzC09State{router: "", use: gUse}
	zzv.Assert(o.id == id404, "group-404:wrong-handler")
	zzv.Assert(zzSameChain(o.chain, gs.chain(nil, "", "")), "group-404:middleware-order-or-arguments")
	cnt.add(o.chain)
	for tag, c := range zzMWCalls {
		zzv.Assert(cnt.seen[tag] == c, "factory-invocations-differ-from-wrapped-handlers")
	}
}

// zzStar: the OPTIONS * handler of a router inside a group (reached on the router itself).
func zzStar(r *Router[*hnd], s *zzC09State, cnt *zzCounted) {
	o := zzRouterServe{r}.ServeHTTP(newW(), "OPTIONS", "*")
	zzv.Assert(o.id == idOpt, "star:wrong-handler")
	zzv.Assert(zzSameChain(o.chain, s.chain(nil, "OPTIONS", "")), "star:middleware-order-or-arguments")
	cnt.add(o.chain)
}
