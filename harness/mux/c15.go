//go:build verif

package mux

import (
	"strings"

	zzv "github.com/issue9/mux/v9/internal/zzverif"
	"github.com/issue9/mux/v9/types"
)

// ---- C15: version matchers ----

func zzNormVersion(v string) string {
	if v[0] != '/' {
		v = "/" + v
	}
	if v[len(v)-1] != '/' {
		v += "/"
	}
	return v
}

// ZZC15Path(n): n = maxVersionLen*10 + maxPathLen; one or two arbitrary version strings.
func ZZC15Path(n int) {
	nv := 1 + zzv.Choice("nv", 2)
	var vs, norm []string
	for i := 0; i < nv; i++ {
		v := zzv.Bytes("ver", n/10)
		zzv.Assume(len(v) > 0)
		vs = append(vs, v)
		norm = append(norm, zzNormVersion(v))
	}
	param := []string{"", "ver"}[zzv.Choice("param", 2)]
	m := NewPathVersion(param, vs...)
	path := zzv.Bytes("p", n%10)
	req := zzReq("GET", path)
	ctx := types.NewContext()
	ctx.Set("keep", "1")
	ok := m.Match(req, ctx)
	zzv.Obs("ok", ok)

	for _, v := range norm {
		if len(path) >= len(v) && path[:len(v)] == v {
			zzv.Cover("version-accepted")
			zzv.Assert(ok, "path-version:rejects-a-path-that-begins-with-a-listed-version")
			zzv.Assert(req.URL.Path == path[len(v)-1:], "path-version:does-not-remove-exactly-the-version-segment")
			if param != "" {
				got, has := ctx.Get(param)
				zzv.Assert(has && got == v[:len(v)-1] && ctx.Count() == 2, "path-version:recorded-parameter-is-not-the-first-listed-matching-version")
			} else {
				zzv.Assert(ctx.Count() == 1, "path-version:records-a-parameter-without-a-name")
			}
			return
		}
	}
	zzv.Cover("version-rejected")
	zzv.Assert(!ok, "path-version:accepts-a-path-without-a-listed-version-segment")
	zzv.Assert(req.URL.Path == path, "path-version:rejecting-matcher-changed-the-path")
	zzv.Assert(ctx.Count() == 1, "path-version:rejecting-matcher-changed-the-params")
}

// ZZC15Hdr(n): header version; Accept is a table entry or "a/b; version=" + <= n arbitrary token bytes.
func ZZC15Hdr(n int) {
	param := []string{"", "v"}[zzv.Choice("param", 2)]
	key := []string{"", "ver"}[zzv.Choice("key", 2)]
	wantKey := key
	if wantKey == "" {
		wantKey = "version"
	}
	versions := []string{"1", "2.x", "v-3"}
	if zzv.Choice("empty-version", 2) == 1 {
		versions = append(versions, "") // an absent parameter reads as "": listed, it is accepted
	}
	m := NewHeaderVersion(param, key, func(error) {}, versions...)
	req := zzReq("GET", "/p")
	ctx := types.NewContext()
	accept, val, parses := "", "", false
	switch c := zzv.Choice("accept", 15); c {
	case 0:
	case 1:
		accept = "garbage;;="
	case 2:
		accept, val, parses = "application/json; "+wantKey+"=2.x; q=0.1", "2.x", true
	case 3:
		accept, val, parses = "text/html", "", true
	case 4:
		accept, val, parses = "a/b; other=1", "", true
	case 5:
		accept, val, parses = "a/b; "+wantKey+"=\"1\"", "1", true
	case 6:
		accept = "a/b; " + wantKey + "=1; " + wantKey + "=2" // duplicate parameter: a parse error
	case 7: // parameter names are case-insensitive
		accept, val, parses = "a/b; "+strings.ToUpper(wantKey)+"=v-3", "v-3", true
	case 8:
		accept, val, parses = "A/B;"+strings.ToUpper(wantKey[:1])+wantKey[1:]+"=1", "1", true
	case 9, 10, 11, 12, 13: // a listed version behind a media type that does not parse: rejected
		accept = []string{"a//b", "/b", "a/", "a b/c", "a/b/c"}[c-9] + "; " + wantKey + "=1"
	default:
		tail := zzv.Bytes("val", n)
		zzv.Assume(len(tail) > 0)
		for i := 0; i < len(tail); i++ {
			b := tail[i]
			zzv.Assume((b >= 'a' && b <= 'z') || (b >= '0' && b <= '9') || b == '.' || b == '-' || b == '_')
		}
		accept, val, parses = "a/b; "+wantKey+"="+tail, tail, true
	}
	if accept != "" {
		req.Header.Set("Accept", accept)
	}
	ok := m.Match(req, ctx)
	zzv.Obs("ok", ok)
	want := parses && zzContains(versions, val)
	zzv.Assert(ok == want, "header-version:accepts-iff-the-parameter-is-a-listed-version")
	if ok {
		zzv.Cover("header-accepted")
		if param != "" {
			got, has := ctx.Get(param)
			zzv.Assert(has && got == val && ctx.Count() == 1, "header-version:does-not-record-the-version")
		} else {
			zzv.Assert(ctx.Count() == 0, "header-version:records-a-parameter-without-a-name")
		}
	} else {
		zzv.Cover("header-rejected")
		zzv.Assert(ctx.Count() == 0, "header-version:rejecting-matcher-changed-the-params")
	}
	zzv.Assert(req.URL.Path == "/p", "header-version:changed-the-path")
}
