//go:build verif

package mux

import (
	zzv "github.com/issue9/mux/v9/internal/zzverif"
	"github.com/issue9/mux/v9/types"
)

// ---- C06: WithLock(true) makes concurrent registration, removal and serving safe ----

func zzServePriv(r *Router[*hnd], method, path string) *zzObs {
	o := &zzObs{}
	w := newW()
	w.obs = o
	r.ServeHTTP(w, zzReq(method, path))
	return o
}

type zzC06Out struct {
	o      *zzObs
	routes map[string][]string
	url    string
	urlErr bool
}

// ZZC06(n): n = writer*10 + reader (+100: a second writer, +1000: the reader issues two requests).
func ZZC06(n int) {
	r := zzNewRouter("r", WithLock(true))
	r.Handle("/t/au", &hnd{id: 1}, nil, "GET")
	r.Handle("/t/{x}/k", &hnd{id: 2}, nil, "GET")
	r.Handle("/g", &hnd{id: 3}, nil, "GET")
	wr, rd := n/10%10, n%10
	wr2 := -1
	if n/100%10 == 1 {
		wr2 = (wr + 1) % 4
	}
	if n >= 10000 { // explicit pair of writers: n = 10000 + w1*1000 + w2*100 ... encoded below
		wr, wr2, rd = n/1000%10, n/100%10, n%10
	}
	cleans := wr == 4 || wr2 == 4
	// writers 2 (Remove), 3 (toggle), 4 (Clean), 6 (Remove GET) and 7 (Remove + Handle POST) change what GET /g may answer
	touchesGet := func(k int) bool { return k == 2 || k == 3 || k == 4 || k == 6 || k == 7 }
	common := make([]types.Middleware[*hnd], 0, 4)
	common = append(common, zzMW("C"))

	writer := func(k int) func() {
		return func() {
			switch k {
			case 0: // splits the node of the untouched route /t/au
				r.Handle("/t/ab", &hnd{id: 10}, nil, "GET")
			case 1:
				r.Handle("/g", &hnd{id: 11}, nil, "POST")
			case 2:
				r.Remove("/g")
			case 3: // toggle
				r.Remove("/g", "GET")
				r.Handle("/g", &hnd{id: 12}, nil, "GET")
			case 4:
				r.Clean()
			case 5: // a registration that is rejected as ambiguous walks the tree as well
				zzGuard(func() { r.Handle("/t/{y}/k", &hnd{id: 13}, nil, "GET") })
			case 6:
				r.Remove("/g", "GET")
			case 7:
				r.Remove("/g")
				r.Handle("/g", &hnd{id: 14}, nil, "POST")
			case 8: // two goroutines register through their own Prefix, passing the same caller-owned slice
				r.Prefix("/p8", zzMW("P8")).Handle("/x", &hnd{id: 15}, common, "GET")
			case 9:
				r.Prefix("/p9", zzMW("P9")).Handle("/x", &hnd{id: 16}, common, "GET")
			}
		}
	}
	out := &zzC06Out{}
	var o2 *zzObs
	reader := func() {
		switch rd {
		case 0:
			out.o = zzServePriv(r, "GET", "/g")
		case 1:
			out.o = zzServePriv(r, "GET", "/t/au")
		case 2:
			out.o = zzServePriv(r, "GET", "/t/7/k")
		case 3:
			out.routes = r.Routes()
		case 4:
			u, err := r.URL(true, "/t/{x}/k", map[string]string{"x": "1"})
			out.url, out.urlErr = u, err != nil
		case 5:
			out.o = zzServePriv(r, "POST", "/g")
		}
		if n >= 1000 {
			o2 = zzServePriv(r, "GET", "/t/au")
		}
	}
	if wr2 >= 0 && rd == 9 {
		zzv.Par(writer(wr), writer(wr2)) // two writers only: the final table is what is checked
	} else if wr2 >= 0 {
		zzv.Par(writer(wr), writer(wr2), reader)
	} else {
		zzv.Par(writer(wr), reader)
	}
	zzv.Cover("interleaving")

	// every response is one a sequential router could have produced at some instant
	switch rd {
	case 0: // the toggled route, GET: one of its handlers, 404 or 405
		ok := out.o.id == 3 || out.o.id == 12 || out.o.id == id404 || out.o.id == id405
		zzv.Assert(ok, "toggled-route:foreign-or-nil-handler")
		if !touchesGet(wr) && !touchesGet(wr2) {
			zzv.Assert(out.o.id == 3, "toggled-route:GET-disturbed-by-an-unrelated-write")
		}
	case 5:
		ok := out.o.id == 11 || out.o.id == 14 || out.o.id == id404 || out.o.id == id405
		zzv.Assert(ok, "toggled-route:POST-foreign-or-nil-handler")
	case 1:
		if !cleans {
			zzv.Assert(out.o.id == 1 && out.o.nparams == 0, "untouched-route:not-served-by-its-own-handler")
		} else {
			zzv.Assert(out.o.id == 1 || out.o.id == id404, "untouched-route:foreign-handler")
		}
	case 2:
		if !cleans {
			zzv.Assert(out.o.id == 2 && out.o.px == "7" && out.o.nparams == 1, "untouched-route:wrong-handler-or-parameters")
		} else {
			zzv.Assert(out.o.id == 2 || out.o.id == id404, "untouched-route:foreign-handler")
		}
	case 3:
		_, has := out.routes["/t/au"]
		zzv.Assert(has || cleans, "routes:untouched-route-missing")
	case 4:
		if !cleans {
			zzv.Assert(!out.urlErr && out.url == "/t/1/k", "url:untouched-route-not-built")
		}
	}
	if o2 != nil && !cleans {
		zzv.Assert(o2.id == 1, "untouched-route:second-request-not-served-by-its-own-handler")
	}

	// the final table is the result of the writers' operations in SOME order (each operation atomic)
	zzv.Assert(zzC06Final(r, wr, wr2), "final-table-is-not-the-result-of-any-serial-order-of-the-writes")
	if wr == 8 && wr2 == 9 {
		o8 := zzServePriv2(r, "GET", "/p8/x")
		o9 := zzServePriv2(r, "GET", "/p9/x")
		zzv.Assert(o8.id == 15 && len(o8.chain) == 2 && o8.chain[0][:2] == "P8" && o9.id == 16 && len(o9.chain) == 2 && o9.chain[0][:2] == "P9", "concurrent-registrations-got-each-other's-middlewares")
	}
}

func zzServePriv2(r *Router[*hnd], method, path string) *zzObs {
	o, _ := zzServe(r, zzReq(method, path))
	return o
}

// zzC06Model applies writer k's operations to a model of the method set of /g (+ presence of the other routes).
type zzC06State struct {
	g     []string // methods of /g
	ab    bool     // /t/ab registered
	clean bool
	p8    bool
	p9    bool
}

func (s zzC06State) step(k, part int) (zzC06State, bool) {
	rm := func(l []string, x string) []string {
		var out []string
		for _, y := range l {
			if y != x {
				out = append(out, y)
			}
		}
		return out
	}
	switch k {
	case 0:
		s.ab = true
	case 1:
		if !zzContains(s.g, "POST") {
			s.g = append(append([]string{}, s.g...), "POST")
		}
	case 2:
		s.g = nil
	case 3:
		if part == 0 {
			s.g = rm(s.g, "GET")
			return s, true // a second operation follows
		}
		if !zzContains(s.g, "GET") {
			s.g = append(append([]string{}, s.g...), "GET")
		}
	case 4:
		s = zzC06State{clean: true}
	case 6:
		s.g = rm(s.g, "GET")
	case 7:
		if part == 0 {
			s.g = nil
			return s, true
		}
		if !zzContains(s.g, "POST") {
			s.g = append(append([]string{}, s.g...), "POST")
		}
	case 8:
		s.p8 = true
	case 9:
		s.p9 = true
	}
	return s, false
}

// zzC06Final: does the router's final Routes() equal the model's result for some interleaving of
// the writers' operations (operations atomic, program order kept)?
func zzC06Final(r *Router[*hnd], w1, w2 int) bool {
	rs := r.Routes()
	matches := func(s zzC06State) bool {
		want := 1
		if !s.clean {
			want += 2 // /t/au, /t/{x}/k
		}
		if len(s.g) > 0 {
			want++
			if zzJoin(rs["/g"]) != zzJoin(zzAllowSet(s.g, false)) {
				return false
			}
		} else if _, has := rs["/g"]; has {
			return false
		}
		for _, x := range []struct {
			on bool
			p  string
		}{{s.ab, "/t/ab"}, {s.p8, "/p8/x"}, {s.p9, "/p9/x"}} {
			_, has := rs[x.p]
			if has != x.on {
				return false
			}
			if x.on {
				want++
			}
		}
		return len(rs) == want
	}
	// enumerate interleavings of two operation sequences of length <= 2
	var rec func(s zzC06State, i1, i2 int) bool
	nops := func(k int) int {
		if k == 3 || k == 7 {
			return 2
		}
		if k < 0 {
			return 0
		}
		return 1
	}
	rec = func(s zzC06State, i1, i2 int) bool {
		if i1 == nops(w1) && i2 == nops(w2) {
			return matches(s)
		}
		if i1 < nops(w1) {
			n, _ := s.step(w1, i1)
			if rec(n, i1+1, i2) {
				return true
			}
		}
		if i2 < nops(w2) {
			n, _ := s.step(w2, i2)
			if rec(n, i1, i2+1) {
				return true
			}
		}
		return false
	}
	return rec(zzC06State{g: []string{"GET"}}, 0, 0)
}

// ZZC06RR(n): two readers at the same time, optionally next to a writer that does not touch what
// they read. n = writer*100 + reader1*10 + reader2; writer 0 = none, 1 = a registration that splits
// /t/au's node, 2 = the toggle of /g. Readers: 0 GET /t/au, 1 GET /t/7/k, 2 Routes(), 3 strict URL
// of /t/{x}/k, 4 strict URL of /t/au, 5 non-strict URL of a pattern never seen before, 6 non-strict
// URL of another such pattern, 7 strict URL of /u/{n:digit} (runs an interceptor in mid-build).
func ZZC06RR(n int) {
	r := zzNewRouter("r", WithLock(true))
	r.Handle("/t/au", &hnd{id: 1}, nil, "GET")
	r.Handle("/t/{x}/k", &hnd{id: 2}, nil, "GET")
	r.Handle("/g", &hnd{id: 3}, nil, "GET")
	r.Handle("/u/{n:digit}", &hnd{id: 4}, nil, "GET")
	var outs [2]zzC06Out
	var errs [2]bool
	reader := func(k int, slot int) func() {
		return func() {
			out := &outs[slot]
			switch k {
			case 0:
				out.o = zzServePriv(r, "GET", "/t/au")
			case 1:
				out.o = zzServePriv(r, "GET", "/t/7/k")
			case 2:
				out.routes = r.Routes()
			case 3:
				u, err := r.URL(true, "/t/{x}/k", map[string]string{"x": "1"})
				out.url, errs[slot] = u, err != nil
			case 4:
				u, err := r.URL(true, "/t/au", nil)
				out.url, errs[slot] = u, err != nil
			case 5:
				u, err := r.URL(false, "/n1/{y}", map[string]string{"y": "2"})
				out.url, errs[slot] = u, err != nil
			case 6:
				u, err := r.URL(false, "/n2/{z}/e", map[string]string{"z": "3"})
				out.url, errs[slot] = u, err != nil
			case 7:
				u, err := r.URL(true, "/u/{n:digit}", map[string]string{"n": "5"})
				out.url, errs[slot] = u, err != nil
			}
		}
	}
	r1, r2 := n/10%10, n%10
	switch n / 100 {
	case 0:
		zzv.Par(reader(r1, 0), reader(r2, 1))
	case 1:
		zzv.Par(func() { r.Handle("/t/ab", &hnd{id: 10}, nil, "GET") }, reader(r1, 0), reader(r2, 1))
	default:
		zzv.Par(func() { r.Remove("/g", "GET"); r.Handle("/g", &hnd{id: 12}, nil, "GET") }, reader(r1, 0), reader(r2, 1))
	}
	zzv.Cover("two-readers")
	for slot, k := range []int{r1, r2} {
		out := &outs[slot]
		switch k {
		case 0:
			zzv.Assert(out.o.id == 1 && out.o.nparams == 0, "readers:untouched-route-not-served-by-its-own-handler")
		case 1:
			zzv.Assert(out.o.id == 2 && out.o.px == "7" && out.o.nparams == 1, "readers:wrong-handler-or-parameters")
		case 2:
			_, a := out.routes["/t/au"]
			_, b := out.routes["/t/{x}/k"]
			zzv.Assert(a && b, "readers:Routes()-misses-an-untouched-route")
		case 3:
			zzv.Assert(!errs[slot] && out.url == "/t/1/k", "readers:strict-URL-of-an-untouched-route")
		case 4:
			zzv.Assert(!errs[slot] && out.url == "/t/au", "readers:strict-URL-of-an-untouched-route")
		case 5:
			zzv.Assert(!errs[slot] && out.url == "/n1/2", "readers:non-strict-URL")
		case 6:
			zzv.Assert(!errs[slot] && out.url == "/n2/3/e", "readers:non-strict-URL")
		case 7:
			zzv.Assert(!errs[slot] && out.url == "/u/5", "readers:strict-URL-of-an-untouched-route")
		}
	}
}

// ZZC06Amb(n): two goroutines register patterns that are ambiguous with each other (same shape,
// different parameter names) at the same time: whatever the schedule, exactly one of them is
// accepted - the check and the insertion of a registration are one atomic step. n = 1: the table
// already holds other routes.
func ZZC06Amb(n int) {
	r := zzNewRouter("r", WithLock(true))
	if n == 1 {
		r.Handle("/t/au", &hnd{id: 1}, nil, "GET")
		r.Handle("/n/x", &hnd{id: 2}, nil, "GET")
	}
	var p1, p2 bool
	zzv.Par(
		func() { p1, _ = zzGuard(func() { r.Handle("/n/{a}", &hnd{id: 10}, nil, "GET") }) },
		func() { p2, _ = zzGuard(func() { r.Handle("/n/{b}", &hnd{id: 11}, nil, "GET") }) },
	)
	zzv.Cover("ambiguous-pair")
	rs := r.Routes()
	_, hasA := rs["/n/{a}"]
	_, hasB := rs["/n/{b}"]
	zzv.Assert(hasA != hasB, "concurrent-ambiguous-registrations:not-exactly-one-accepted")
	zzv.Assert(p1 != p2 && p1 == hasB, "concurrent-ambiguous-registrations:the-rejected-call-did-not-panic-or-the-accepted-one-did")
}

// ZZC06Panic(n): user code that runs while the tree's read lock is held (an interceptor) panics;
// a recovery option turns that into an error response. The lock must not stay taken: a registration
// and a request that follow complete. n = 1: the panic happens during strict URL building instead.
func ZZC06Panic(n int) {
	boom := func(s string) bool {
		if s == "boom" {
			panic("interceptor failed")
		}
		return true
	}
	r := NewRouter[*hnd]("r", zzCall, &hnd{id: id404}, zzB405, zzBOpt, WithLock(true), WithStatusRecovery(500), WithInterceptor(boom, "pb"))
	r.Handle("/i/{v:pb}", &hnd{id: 1}, nil, "GET")
	var o2 *zzObs
	first := true
	// (run as a logical thread so that the lock model is active: a leaked lock shows as a deadlock)
	zzv.Par(func() {
		if n == 1 {
			p, _ := zzGuard(func() { r.URL(true, "/i/{v:pb}", map[string]string{"v": "boom"}) })
			first = p
		} else {
			o := zzServePriv(r, "GET", "/i/boom")
			first = o.calls == 0
		}
		r.Handle("/later", &hnd{id: 2}, nil, "GET") // blocks forever if the read lock leaked
		o2 = zzServePriv(r, "GET", "/later")
	})
	zzv.Cover("panic-under-the-lock")
	zzv.Assert(first, "lock-leak:the-interceptor-did-not-panic-or-its-panic-was-not-contained")
	zzv.Assert(o2.id == 2, "lock-leak:registration-after-a-recovered-panic-not-served")
}
