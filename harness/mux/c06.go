//go:build verif

package mux

import (
	zzv "github.com/issue9/mux/v9/internal/zzverif"
)

// ---- C06: WithLock(true) makes concurrent registration, removal and serving safe ----

func zzServePriv(r *Router[*hnd], method, path string) *zzObs {
	o := &zzObs{}
	w := newW()
	w.obs = o
	r.ServeHTTP(w, zzReq(method, path))
	return o
}

type zzC06Out struct {
	o      *zzObs
	routes map[string][]string
	url    string
	urlErr bool
}

// ZZC06(n): n = writer*10 + reader (+100: a second writer, +1000: the reader issues two requests).
func ZZC06(n int) {
	r := zzNewRouter("r", WithLock(true))
	r.Handle("/t/au", &hnd{id: 1}, nil, "GET")
	r.Handle("/t/{x}/k", &hnd{id: 2}, nil, "GET")
	r.Handle("/g", &hnd{id: 3}, nil, "GET")
	wr, rd := n/10%10, n%10
	wr2 := -1
	if n/100%10 == 1 {
		wr2 = (wr + 1) % 4
	}
	cleans := wr == 4 || wr2 == 4
	// writers 2 (Remove), 3 (toggle) and 4 (Clean) change what GET /g may answer
	touchesGet := func(k int) bool { return k == 2 || k == 3 || k == 4 }

	writer := func(k int) func() {
		return func() {
			switch k {
			case 0: // splits the node of the untouched route /t/au
				r.Handle("/t/ab", &hnd{id: 10}, nil, "GET")
			case 1:
				r.Handle("/g", &hnd{id: 11}, nil, "POST")
			case 2:
				r.Remove("/g")
			case 3: // toggle
				r.Remove("/g", "GET")
				r.Handle("/g", &hnd{id: 12}, nil, "GET")
			case 4:
				r.Clean()
			case 5: // a registration that is rejected as ambiguous walks the tree as well
				zzGuard(func() { r.Handle("/t/{y}/k", &hnd{id: 13}, nil, "GET") })
			}
		}
	}
	out := &zzC06Out{}
	var o2 *zzObs
	reader := func() {
		switch rd {
		case 0:
			out.o = zzServePriv(r, "GET", "/g")
		case 1:
			out.o = zzServePriv(r, "GET", "/t/au")
		case 2:
			out.o = zzServePriv(r, "GET", "/t/7/k")
		case 3:
			out.routes = r.Routes()
		case 4:
			u, err := r.URL(true, "/t/{x}/k", map[string]string{"x": "1"})
			out.url, out.urlErr = u, err != nil
		case 5:
			out.o = zzServePriv(r, "POST", "/g")
		}
		if n >= 1000 {
			o2 = zzServePriv(r, "GET", "/t/au")
		}
	}
	if wr2 >= 0 {
		zzv.Par(writer(wr), writer(wr2), reader)
	} else {
		zzv.Par(writer(wr), reader)
	}
	zzv.Cover("interleaving")

	// every response is one a sequential router could have produced at some instant
	switch rd {
	case 0: // the toggled route, GET: one of its handlers, 404 or 405
		ok := out.o.id == 3 || out.o.id == 12 || out.o.id == id404 || out.o.id == id405
		zzv.Assert(ok, "toggled-route:foreign-or-nil-handler")
		if !touchesGet(wr) && !touchesGet(wr2) {
			zzv.Assert(out.o.id == 3, "toggled-route:GET-disturbed-by-an-unrelated-write")
		}
	case 5:
		ok := out.o.id == 11 || out.o.id == id404 || out.o.id == id405
		zzv.Assert(ok, "toggled-route:POST-foreign-or-nil-handler")
	case 1:
		if !cleans {
			zzv.Assert(out.o.id == 1 && out.o.nparams == 0, "untouched-route:not-served-by-its-own-handler")
		} else {
			zzv.Assert(out.o.id == 1 || out.o.id == id404, "untouched-route:foreign-handler")
		}
	case 2:
		if !cleans {
			zzv.Assert(out.o.id == 2 && out.o.px == "7" && out.o.nparams == 1, "untouched-route:wrong-handler-or-parameters")
		} else {
			zzv.Assert(out.o.id == 2 || out.o.id == id404, "untouched-route:foreign-handler")
		}
	case 3:
		_, has := out.routes["/t/au"]
		zzv.Assert(has || cleans, "routes:untouched-route-missing")
	case 4:
		if !cleans {
			zzv.Assert(!out.urlErr && out.url == "/t/1/k", "url:untouched-route-not-built")
		}
	}
	if o2 != nil && !cleans {
		zzv.Assert(o2.id == 1, "untouched-route:second-request-not-served-by-its-own-handler")
	}
}
