//go:build verif

package mux

import (
	"net/http"
	"strings"

	zzv "github.com/issue9/mux/v9/internal/zzverif"
)

// ---- C13: group dispatch ----

// reference matchers: pure functions of the ORIGINAL request
type zzRM struct {
	kind     int // 0 any, 1 path-version, 2 hosts, 3 header-version, 4 and, 5 or
	param    string
	versions []string
	domains  []string
	subs     []zzRM
}

type zzRReq struct {
	path, host, accept string
}

type zzRRes struct {
	ok   bool
	path string
	ps   []rparam
}

func zzNormHost(h string) string {
	// strip a valid :port
	for i := len(h) - 1; i >= 0; i-- {
		if h[i] == ':' {
			valid := true
			for j := i + 1; j < len(h); j++ {
				if h[j] < '0' || h[j] > '9' {
					valid = false
				}
			}
			if valid {
				h = h[:i]
			}
			break
		}
	}
	if len(h) >= 2 && h[0] == '[' && h[len(h)-1] == ']' {
		h = h[1 : len(h)-1]
	}
	return strings.ToLower(h)
}

var zzAccepts = []string{"", "a/b; version=1", "a/b;version=3", "garbage;;=", "a/b; version=\"2\"", "a/b; v=2"}

// what mime.ParseMediaType yields for the parameters "version" / "v" of the table above
func zzAcceptParam(accept, key string) (string, bool) {
	switch accept {
	case "a/b; version=1":
		if key == "version" {
			return "1", true
		}
	case "a/b;version=3":
		if key == "version" {
			return "3", true
		}
	case "a/b; version=\"2\"":
		if key == "version" {
			return "2", true
		}
	case "a/b; v=2":
		if key == "v" {
			return "2", true
		}
	}
	return "", false
}

// zzSetParam: Set semantics (a later capture under the same name overwrites).
func zzSetParam(ps []rparam, k, v string) []rparam {
	out := make([]rparam, 0, len(ps)+1)
	done := false
	for _, p := range ps {
		if p.k == k {
			out = append(out, rparam{k, v})
			done = true
		} else {
			out = append(out, p)
		}
	}
	if !done {
		out = append(out, rparam{k, v})
	}
	return out
}

func (m zzRM) eval(q zzRReq, ps []rparam) zzRRes {
	switch m.kind {
	case 0:
		return zzRRes{true, q.path, ps}
	case 1:
		for _, v := range m.versions {
			seg := "/" + v + "/"
			if len(q.path) >= len(seg) && q.path[:len(seg)] == seg {
				if m.param != "" {
					ps = zzSetParam(ps, m.param, "/"+v)
				}
				return zzRRes{true, q.path[len(seg)-1:], ps}
			}
		}
	case 2:
		cs := make([]rcand, len(m.domains))
		for i, d := range m.domains {
			cs[i] = rcand{i + 1, d}
		}
		adm := refResolve(cs, zzNormHost(q.host), nil)
		if len(adm) > 0 {
			for _, p := range adm[0].ps {
				ps = zzSetParam(ps, p.k, p.v)
			}
			return zzRRes{true, q.path, ps}
		}
	case 3:
		key := "version"
		if v, ok := zzAcceptParam(q.accept, key); ok && zzContains(m.versions, v) {
			if m.param != "" {
				ps = zzSetParam(ps, m.param, v)
			}
			return zzRRes{true, q.path, ps}
		}
	case 4:
		cur := zzRRes{true, q.path, ps}
		for _, s := range m.subs {
			cur = s.eval(zzRReq{cur.path, q.host, q.accept}, cur.ps)
			if !cur.ok {
				return zzRRes{false, q.path, ps}
			}
		}
		return cur
	case 5:
		for _, s := range m.subs {
			if r := s.eval(q, ps); r.ok {
				return r
			}
		}
	}
	return zzRRes{false, q.path, ps}
}

func (m zzRM) build() Matcher {
	switch m.kind {
	case 1:
		return NewPathVersion(m.param, append([]string{}, m.versions...)...)
	case 2:
		return NewHosts(false, m.domains...)
	case 3:
		return NewHeaderVersion(m.param, "", func(error) {}, m.versions...)
	case 4, 5:
		var ms []Matcher
		for _, s := range m.subs {
			ms = append(ms, s.build())
		}
		if m.kind == 4 {
			return AndMatcher(ms...)
		}
		return OrMatcher(ms...)
	}
	return nil
}

func zzPV(param string, v ...string) zzRM { return zzRM{kind: 1, param: param, versions: v} }
func zzHS(d ...string) zzRM               { return zzRM{kind: 2, domains: d} }
func zzHV(param string, v ...string) zzRM { return zzRM{kind: 3, param: param, versions: v} }
func zzAnd(s ...zzRM) zzRM                { return zzRM{kind: 4, subs: s} }
func zzOr(s ...zzRM) zzRM                 { return zzRM{kind: 5, subs: s} }

var zzC13Groups = [][]zzRM{
	{zzAnd(zzPV("ver", "v1"), zzHS("a.co")), zzPV("ver", "v1"), {}},
	{zzOr(zzAnd(zzPV("pv", "v2"), zzHV("hv", "2")), zzHS("{sub}.b.co", "b.co")), zzHV("hv", "1"), zzPV("pv", "v2", "v1")},
	{zzAnd(zzHS("a.co", "{s}.co"), zzPV("", "v1"), zzHV("h", "3")), zzOr(zzHV("h", "9"), zzAnd(zzPV("p", "v1"), zzHS("zz"))), zzAnd(zzPV("p", "v"), zzPV("q", "v1"))},
	// 3: a rejecting Hosts inside an Or that still accepts; the same parameter name captured at several nesting levels
	{zzOr(zzHS("a.co"), zzPV("", "v1")), zzAnd(zzHV("ver", "1"), zzOr(zzAnd(zzPV("ver", "v2"), zzHS("zz")), zzPV("", "v2"))), zzOr(zzAnd(zzPV("ver", "v3"), zzHV("ver", "2")), zzHS("{ver}.b"))},
}

// ZZC13(n): n = group*100 + maxHost*10 + maxPath.
func ZZC13(n int) {
	ms := zzC13Groups[n/100]
	g := NewGroup[*hnd](zzCall, &hnd{id: id404}, zzB405, zzBOpt)
	g.Use(zzMW("G"))
	names := []string{"r0", "r1", "r2"}
	for i, m := range ms {
		r := g.New(names[i], m.build())
		r.Handle("/x/{id}", &hnd{id: 10*i + 1}, nil, "GET")
		r.Handle("/", &hnd{id: 10*i + 2}, nil, "GET")
	}
	removed := -1
	routers := g.Routers()
	var byName [3]*Router[*hnd]
	for i := range names {
		byName[i] = routers[i]
	}
	order := []int{0, 1, 2}
	if c := zzv.Choice("remove", 3); c >= 1 {
		removed = zzv.Choice("which", 3)
		g.Remove(names[removed])
		order = nil
		for i := 0; i < 3; i++ {
			if i != removed {
				order = append(order, i)
			}
		}
		if c == 2 {
			// the same router object comes back at the end of the list, now without a matcher
			g.Add(nil, byName[removed])
			ms = append([]zzRM{}, ms...)
			ms[removed] = zzRM{}
			order = append(order, removed)
			removed = -1
		}
	}
	// names stay unique: adding a router with a taken name panics and changes nothing
	if removed != 0 {
		p, rt := zzGuard(func() { g.New("r0", nil) })
		zzv.Assert(p && !rt, "group:duplicate-router-name-accepted")
		zzv.Assert(len(g.Routers()) == 3-map[bool]int{true: 1, false: 0}[removed >= 0], "group:rejected-Add-changed-the-router-list")
	}

	// Router(name) / Routers() / Routes() reflect exactly the routers in dispatch
	for i, nm := range names {
		got := g.Router(nm)
		zzv.Assert((got != nil) == (i != removed) && (got == nil || got.Name() == nm), "group:Router(name)-disagrees-with-Add/Remove")
	}
	grs := g.Routes()
	zzv.Assert(len(grs) == len(g.Routers()), "group:Routes()-disagrees-with-Routers()")
	for i, nm := range names {
		rs, has := grs[nm]
		zzv.Assert(has == (i != removed) && (!has || len(rs) == 3), "group:Routes()-lists-removed-or-misses-live-routers")
	}

	host := zzv.Bytes("h", n/10%10)
	zzv.Assume(zzASCII(host))
	path := zzv.Bytes("p", n%10)
	accept := zzAccepts[zzv.Choice("a", len(zzAccepts))]
	req := &http.Request{Method: "GET", URL: zzReq("GET", path).URL, Header: http.Header{}, Host: host}
	if accept != "" {
		req.Header.Set("Accept", accept)
	}
	o, w := zzServe(g, req)
	zzv.Assert(o.calls == 1, "group:handler-not-called-exactly-once")
	zzv.Obs("id", o.id)
	zzv.Obs("router", o.router)

	// reference: first accepting router on the original request
	q := zzRReq{path, host, accept}
	for _, i := range order {
		m := ms[i]
		res := m.eval(q, nil)
		if !res.ok {
			continue
		}
		zzv.Cover("router-accepts")
		zzv.Assert(o.router == names[i], "group:not-served-by-the-first-accepting-router")
		zzv.Assert(o.path == res.path, "group:request-path-is-not-what-the-accepting-matcher-produced")
		// that router alone on the rewritten request
		want, wantPs := id404, res.ps
		p := res.path
		switch {
		case p == "/":
			want = 10*i + 2
		case len(p) >= 3 && p[:3] == "/x/":
			want = 10*i + 1
			wantPs = zzSetParam(wantPs, "id", p[3:])
		}
		if p == "" || p == "*" {
			return
		}
		zzv.Assert(o.id == want, "group:wrong-handler-in-the-accepting-router")
		if want != id404 {
			zzv.Cover("group-served")
			zzv.Assert(sameOutcome(routcome{0, wantPs}, 0, o.params), "group:params-are-not-matcher-params-plus-route-params")
		}
		return
	}
	zzv.Cover("group-404")
	zzv.Assert(o.id == id404 && w.status == 404, "group:no-router-accepts-but-not-the-group-404")
	zzv.Assert(len(o.chain) == 1 && o.chain[0] == "G|||", "group:404-not-wrapped-in-the-group-middlewares")
	zzv.Assert(o.path == path, "group:rejecting-matchers-changed-the-request-path")
}
