//go:build verif

package mux

import (
	"net/http"
	"net/url"
	"regexp"

	zzv "github.com/issue9/mux/v9/internal/zzverif"
	"github.com/issue9/mux/v9/types"
)

// ---- handler type, writer and observation used by all harnesses ----

type hnd struct {
	id    int
	chain []string
	node  types.Node
}

const (
	id404 = -404
	id405 = -405
	idOpt = -200
	idTrc = -300
)

type recW struct {
	obs     *zzObs // when set, the CallFunc records here instead of the package-level zzO (concurrent harnesses)
	h       http.Header
	status  int
	n       int
	sent    bool
	sentHdr http.Header // snapshot taken at WriteHeader
	info    bool        // model net/http's informational responses: 1xx other than 101 does not end the header phase
	infos   int         // informational responses sent
}

func newW() *recW { return &recW{h: http.Header{}} }

func (w *recW) Header() http.Header { return w.h }
func (w *recW) Write(b []byte) (int, error) {
	if !w.sent {
		w.WriteHeader(200)
	}
	w.n += len(b)
	return len(b), nil
}
func (w *recW) WriteHeader(s int) {
	if w.info && !w.sent && s >= 100 && s <= 199 && s != 101 {
		w.infos++
		return
	}
	if !w.sent {
		w.sent = true
		w.status = s
		w.sentHdr = w.h.Clone()
	}
}

// zzPS is an immutable copy of the parameters a request reported, taken while the
// CallFunc runs (the context behind types.Params goes back to the pool afterwards).
type zzPS struct{ k, v []string }

func (p *zzPS) Count() int {
	if p == nil {
		return 0
	}
	return len(p.k)
}

func (p *zzPS) Get(key string) (string, bool) {
	if p == nil {
		return "", false
	}
	for i, k := range p.k {
		if k == key {
			return p.v[i], true
		}
	}
	return "", false
}

func (p *zzPS) Range(f func(k, v string)) {
	if p == nil {
		return
	}
	for i := range p.k {
		f(p.k[i], p.v[i])
	}
}

func (p *zzPS) equal(q *zzPS) bool {
	if p.Count() != q.Count() {
		return false
	}
	same := true
	p.Range(func(k, v string) {
		if x, ok := q.Get(k); !ok || x != v {
			same = false
		}
	})
	return same
}

// zzParamsLike: what the oracles need from a parameter set (a snapshot or a live context).
type zzParamsLike interface {
	Count() int
	Get(string) (string, bool)
}

func zzSnapshot(ps types.Params) *zzPS {
	out := &zzPS{}
	ps.Range(func(k, v string) {
		// keep the keys sorted: map iteration order must not show in observations
		i := len(out.k)
		out.k = append(out.k, k)
		out.v = append(out.v, v)
		for i > 0 && out.k[i] < out.k[i-1] {
			out.k[i], out.k[i-1] = out.k[i-1], out.k[i]
			out.v[i], out.v[i-1] = out.v[i-1], out.v[i]
			i--
		}
	})
	return out
}

type zzObs struct {
	calls   int
	id      int
	chain   []string
	node    bool
	pattern string
	methods []string
	allow   string
	router  string
	path    string // req.URL.Path seen by the call
	params  *zzPS
	hnode   types.Node
	nparams int    // concurrent harnesses: copied during the call (the context goes back to the pool afterwards)
	px      string // value of parameter "x" during the call
}

var zzO *zzObs

// zzCall is the CallFunc of every harness router: it snapshots what the router reports.
func zzCall(w http.ResponseWriter, r *http.Request, rt types.Route, h *hnd) {
	o := zzO
	if rw, ok := w.(*recW); ok && rw.obs != nil {
		// concurrent harness: private observation, and only what is immutable on a node
		o = rw.obs
		o.calls++
		o.id = h.id
		o.nparams = rt.Params().Count()
		o.px, _ = rt.Params().Get("x")
		o.router = rt.RouterName()
		if n := rt.Node(); n != nil {
			o.node = true
			o.pattern = n.Pattern()
		}
		return
	}
	o.calls++
	o.id = h.id
	o.chain = h.chain
	o.hnode = h.node
	o.params = zzSnapshot(rt.Params())
	o.router = rt.RouterName()
	o.path = r.URL.Path
	o.node = false
	if n := rt.Node(); n != nil {
		o.node = true
		o.pattern = n.Pattern()
		o.methods = n.Methods()
		o.allow = n.AllowHeader()
	}
	switch h.id {
	case id405:
		w.Header().Set("Allow", h.node.AllowHeader())
		w.WriteHeader(405)
	case idOpt:
		w.Header().Set("Allow", h.node.AllowHeader())
		w.WriteHeader(200)
	case id404:
		w.WriteHeader(404)
	default:
		w.Write([]byte("body"))
	}
}

func zzB405(n types.Node) *hnd { return &hnd{id: id405, node: n} }
func zzBOpt(n types.Node) *hnd { return &hnd{id: idOpt, node: n} }

func zzNewRouter(name string, o ...Option) *Router[*hnd] {
	// "u" is an arbitrary user-defined interceptor: an uninterpreted predicate under the executor
	o = append([]Option{WithDigitInterceptor("digit"), WithWordInterceptor("word"), WithAnyInterceptor("any"),
		WithInterceptor(func(s string) bool { return zzv.UFPred("u", s) }, "u")}, o...)
	return NewRouter[*hnd](name, zzCall, &hnd{id: id404}, zzB405, zzBOpt, o...)
}

func zzReq(method, path string) *http.Request {
	return &http.Request{Method: method, URL: &url.URL{Path: path}, Header: http.Header{}, Host: "h"}
}

// zzServe runs one request and returns the observation.
func zzServe(r http.Handler, req *http.Request) (*zzObs, *recW) {
	o := &zzObs{}
	zzO = o
	w := newW()
	r.ServeHTTP(w, req)
	return o, w
}

func zzMW(tag string) types.Middleware[*hnd] {
	return types.MiddlewareFunc[*hnd](func(next *hnd, method, pattern, router string) *hnd {
		return &hnd{id: next.id, chain: append([]string{tag + "|" + method + "|" + pattern + "|" + router}, next.chain...), node: next.node}
	})
}

// ---- independent pattern tokenizer (never calls the parser under test) ----

type zzTok struct {
	param  bool
	lit    string
	name   string
	rule   string
	ignore bool
}

func zzIndexByte(s string, c byte) int {
	for i := 0; i < len(s); i++ {
		if s[i] == c {
			return i
		}
	}
	return -1
}

func zzTokenize(p string) []zzTok {
	var out []zzTok
	for len(p) > 0 {
		i := zzIndexByte(p, '{')
		if i < 0 {
			out = append(out, zzTok{lit: p})
			break
		}
		if i > 0 {
			out = append(out, zzTok{lit: p[:i]})
		}
		j := zzIndexByte(p, '}')
		body := p[i+1 : j]
		name, rule := body, ""
		if k := zzIndexByte(body, ':'); k >= 0 {
			name, rule = body[:k], body[k+1:]
		}
		ign := false
		if len(name) > 0 && name[0] == '-' {
			ign = true
			name = name[1:]
		}
		out = append(out, zzTok{param: true, name: name, rule: rule, ignore: ign})
		p = p[j+1:]
	}
	return out
}

func zzAllDigits(v string) bool {
	for i := 0; i < len(v); i++ {
		if v[i] < '0' || v[i] > '9' {
			return false
		}
	}
	return len(v) > 0
}

func zzAllWord(v string) bool {
	for i := 0; i < len(v); i++ {
		c := v[i]
		if !((c >= '0' && c <= '9') || (c >= 'a' && c <= 'z') || (c >= 'A' && c <= 'Z')) {
			return false
		}
	}
	return len(v) > 0
}

// zzValueOK: does v satisfy the constraint of rule over its whole length?
// (interceptor rules digit/word/any are those installed by zzNewRouter)
func zzValueOK(rule, v string) bool {
	switch rule {
	case "":
		return true
	case "digit":
		return zzAllDigits(v)
	case "word":
		return zzAllWord(v)
	case "any":
		return len(v) > 0
	case "u":
		return zzv.UFPred("u", v)
	}
	re := regexp.MustCompile("^(?:" + rule + ")$")
	return re.MatchString(v)
}

// zzCheckRoute asserts the C01 agreement between a reported pattern, the
// reported params and the request path.
func zzCheckRoute(tag, pattern, path string, ps zzParamsLike) {
	toks := zzTokenize(pattern)
	s := ""
	names := 0
	for _, t := range toks {
		if !t.param {
			s += t.lit
			continue
		}
		if t.ignore {
			// an ignored parameter reports nothing; the path text it consumed is unknown
			// to the oracle, so reconstruction is only checked for patterns without '-'.
			s += "\x00"
			continue
		}
		names++
		v, ok := ps.Get(t.name)
		zzv.Assert(ok, tag+":param-missing")
		zzv.Assert(zzValueOK(t.rule, v), tag+":value-violates-constraint")
		s += v
	}
	zzv.Assert(ps.Count() == names, tag+":param-count")
	ignored := false
	for _, t := range toks {
		if t.param && t.ignore {
			ignored = true
		}
	}
	if !ignored {
		zzv.Assert(s == path, tag+":path-reconstructs")
		return
	}
	// '-' parameters report no value: the path must still have the shape of the pattern, i.e. there
	// must be texts for the ignored parameters, each satisfying its rule, that make the substitution
	// equal to the path. Decided with an anchored expression built here from the pattern.
	expr := "^"
	for _, t := range toks {
		switch {
		case !t.param:
			expr += regexp.QuoteMeta(t.lit)
		case !t.ignore:
			v, _ := ps.Get(t.name)
			if zzHasSymbolic(v) {
				return // a symbolic captured value cannot be spliced into an expression; covered by the other tables
			}
			expr += regexp.QuoteMeta(v)
		case t.rule == "":
			expr += "(?s:.*)"
		case t.rule == "digit":
			expr += "[0-9]+"
		case t.rule == "word":
			expr += "[a-zA-Z0-9]+"
		case t.rule == "any":
			expr += "(?s:.+)"
		case t.rule == "u":
			return
		default:
			expr += "(?:" + t.rule + ")"
		}
	}
	zzv.Assert(regexp.MustCompile(expr+"$").MatchString(path), tag+":path-does-not-have-the-shape-of-the-pattern")
}

// zzHasSymbolic: natively always false; under the executor true for strings with symbolic bytes
// (the executor evaluates s == s symbolically, so this is decided by comparing with a copy).
func zzHasSymbolic(s string) bool { return zzv.IsSymbolic(s) }

// ---- table model shared by the history harnesses ----

type zzRoute struct {
	p   string
	ms  []string
	ids []int
}

type zzModel struct{ routes []zzRoute }

func (m *zzModel) find(p string) int {
	for i := range m.routes {
		if m.routes[i].p == p {
			return i
		}
	}
	return -1
}

func (m *zzModel) add(p string, id int, ms ...string) {
	i := m.find(p)
	if i < 0 {
		m.routes = append(m.routes, zzRoute{p: p})
		i = len(m.routes) - 1
	}
	for _, x := range ms {
		m.routes[i].ms = append(m.routes[i].ms, x)
		m.routes[i].ids = append(m.routes[i].ids, id)
	}
}

// remove follows the documented semantics: no methods = all; GET takes HEAD with it;
// OPTIONS and names that are not registered are ignored; a pattern without methods is gone.
func (m *zzModel) remove(p string, ms ...string) {
	i := m.find(p)
	if i < 0 {
		return
	}
	r := &m.routes[i]
	if len(ms) == 0 {
		r.ms, r.ids = nil, nil
	}
	for _, x := range ms {
		for k := 0; k < len(r.ms); k++ {
			if r.ms[k] == x {
				r.ms = append(r.ms[:k:k], r.ms[k+1:]...)
				r.ids = append(r.ids[:k:k], r.ids[k+1:]...)
				break
			}
		}
	}
	if len(r.ms) == 0 {
		m.routes = append(m.routes[:i:i], m.routes[i+1:]...)
	}
}

func (m *zzModel) clean(prefix string) {
	var keep []zzRoute
	for _, r := range m.routes {
		if len(r.p) >= len(prefix) && r.p[:len(prefix)] == prefix {
			continue
		}
		keep = append(keep, r)
	}
	m.routes = keep
}

// handlerID: id registered for (pattern, method), GET's for HEAD; 0 if none.
func (m *zzModel) handlerID(p, method string) int {
	i := m.find(p)
	if i < 0 {
		return 0
	}
	if method == "HEAD" {
		method = "GET"
	}
	for k, x := range m.routes[i].ms {
		if x == method {
			return m.routes[i].ids[k]
		}
	}
	return 0
}

// ---- dispatch oracle shared by C02/C03/C17/C19: the documented resolution
// procedure (refResolve) over the model's live patterns ----

// zzExpectDispatch asserts that the observed outcome for (path, method) is one the
// documented procedure admits on the model's live table.
func zzExpectDispatch(tag string, m *zzModel, path, method string, o *zzObs) {
	cs := make([]rcand, len(m.routes))
	for i := range m.routes {
		cs[i] = rcand{i + 1, m.routes[i].p}
	}
	adm := refResolve(cs, path, nil)
	if !o.node {
		zzv.Assert(o.id == id404, tag+":no-node-but-not-the-404-handler")
		zzv.Assert(len(adm) == 0, tag+":404-although-a-live-route-matches")
		return
	}
	ok := false
	for _, a := range adm {
		if m.routes[a.id-1].p == o.pattern && sameOutcome(routcome{a.id, a.ps}, a.id, o.params) {
			ok = true
		}
	}
	zzv.Assert(ok, tag+":outcome-not-admissible-on-the-live-table")
	want := m.handlerID(o.pattern, method)
	if want == 0 {
		want = id405
		if method == "OPTIONS" {
			want = idOpt
		}
	}
	zzv.Assert(o.id == want, tag+":wrong-handler-for-method")
}

// zzWitness builds a request path for a pattern from simple values: digits for
// every parameter (accepted by \d+, digit, word, \w*, named), 'b' for [a-c]+/[a-z]+.
func zzWitness(p string) string {
	s := ""
	for _, t := range zzTokenize(p) {
		switch {
		case !t.param:
			s += t.lit
		case t.rule == "[a-c]+" || t.rule == "[a-z]+":
			s += "b"
		default:
			s += "7"
		}
	}
	return s
}

func zzSortedStrings(in []string) []string {
	out := append([]string{}, in...)
	for i := 1; i < len(out); i++ {
		for j := i; j > 0 && out[j] < out[j-1]; j-- {
			out[j], out[j-1] = out[j-1], out[j]
		}
	}
	return out
}

func zzJoin(in []string) string {
	s := ""
	for i, x := range in {
		if i > 0 {
			s += ", "
		}
		s += x
	}
	return s
}

// zzAllowSet: the Allow set the documentation prescribes for a live route.
func zzAllowSet(ms []string, trace bool) []string {
	out := append([]string{}, ms...)
	for _, x := range ms {
		if x == "GET" {
			out = append(out, "HEAD")
		}
	}
	out = append(out, "OPTIONS")
	if trace {
		out = append(out, "TRACE")
	}
	return zzSortedStrings(out)
}

// zzCheckRoutes asserts Routes() == model (patterns and method sets).
func zzCheckRoutes(tag string, r *Router[*hnd], m *zzModel, trace bool) {
	rs := r.Routes()
	star := []string{"OPTIONS"}
	if trace {
		star = append(star, "TRACE")
	}
	zzv.Assert(zzJoin(rs["*"]) == zzJoin(star), tag+":routes-star")
	zzv.Assert(len(rs) == len(m.routes)+1, tag+":routes-lists-dead-or-misses-live-patterns")
	for _, rt := range m.routes {
		got, ok := rs[rt.p]
		zzv.Assert(ok, tag+":routes-misses-live-pattern")
		zzv.Assert(zzJoin(got) == zzJoin(zzAllowSet(rt.ms, trace)), tag+":routes-method-set")
		zzCheckStrictURL(tag, r, rt.p, true)
	}
}

// zzCheckStrictURL: strict URL building of pattern with the witness values: for a live pattern it
// yields the witness path when every value satisfies its rule and fails otherwise; for a pattern
// that is not live it fails. (Patterns with the uninterpreted interceptor "u" are skipped.)
func zzCheckStrictURL(tag string, r *Router[*hnd], pattern string, live bool) {
	params := map[string]string{}
	valid := true
	for _, t := range zzTokenize(pattern) {
		if !t.param {
			continue
		}
		if t.rule == "u" {
			return
		}
		v := "7"
		if t.rule == "[a-c]+" || t.rule == "[a-z]+" {
			v = "b"
		}
		params[t.name] = v
		if !zzValueOK(t.rule, v) {
			valid = false
		}
	}
	got, err := r.URL(true, pattern, params)
	if live && valid {
		w := zzWitness(pattern) // (the routers of C19 are built with WithURLDomain("http://d"))
		zzv.Assert(err == nil && (got == w || got == "http://d"+w), tag+":strict-URL-of-a-live-route-fails-or-differs")
	} else {
		zzv.Assert(err != nil, tag+":strict-URL-of-a-dead-pattern-or-invalid-value-succeeds")
	}
}
