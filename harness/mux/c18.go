//go:build verif

package mux

import (
	zzv "github.com/issue9/mux/v9/internal/zzverif"
)

// ---- C18: TRACE follows the WithTrace option ----

// ZZC18(n): n = table*100 + trace*50 + maxLen.
func ZZC18(n int) {
	ops := zzTables[n/100]
	trace := n%100 >= 50
	maxLen := n % 50
	var r *Router[*hnd]
	if trace {
		r = zzNewRouter("r", WithTrace[*hnd](&hnd{id: idTrc}))
	} else {
		r = zzNewRouter("r")
	}
	m := &zzModel{}
	r.Use(zzMW("U1"))
	for i, op := range ops {
		zzApply(r, m, op, i+1)
	}
	r.Use(zzMW("U2"))
	path := zzv.Bytes("p", maxLen)
	o, w := zzServe(r, zzReq("TRACE", path))
	zzv.Obs("id", o.id)
	if trace {
		zzv.Cover("trace-configured")
		zzv.Assert(o.calls == 1 && o.id == idTrc, "trace:request-not-answered-by-the-configured-handler")
		zzv.Assert(len(o.chain) == 2 && o.chain[0] == "U2|TRACE||r" && o.chain[1] == "U1|TRACE||r", "trace:handler-not-wrapped-in-exactly-the-Use-middlewares")
		zzv.Assert(o.params.Count() == 0, "trace:reports-route-parameters")
		// TRACE cannot be registered by hand, and is listed in every Allow set
		p, rt := zzGuard(func() { r.Handle("/fresh", &hnd{id: 99}, nil, "TRACE") })
		zzv.Assert(p && !rt, "trace:manual-registration-accepted")
		for _, rtm := range m.routes {
			o2, w2 := zzServe(r, zzReq("OPTIONS", zzWitness(rtm.p)))
			if o2.node { // (a witness path may miss its route when an arbitrary user interceptor rejects the value)
				zzv.Assert(zzContains(zzSplitAllow(w2.h.Get("Allow")), "TRACE"), "trace:missing-from-an-Allow-set")
			}
		}
		_, w3 := zzServe(r, zzReq("OPTIONS", "*"))
		zzv.Assert(zzContains(zzSplitAllow(w3.h.Get("Allow")), "TRACE"), "trace:missing-from-the-Allow-set-of-OPTIONS-*")
		// ... also after everything was cleaned away
		r.Clean()
		_, w4 := zzServe(r, zzReq("OPTIONS", "*"))
		zzv.Assert(zzContains(zzSplitAllow(w4.h.Get("Allow")), "TRACE"), "trace:missing-from-the-Allow-set-of-OPTIONS-*-after-Clean")
		o5, _ := zzServe(r, zzReq("TRACE", path))
		zzv.Assert(o5.id == idTrc, "trace:not-answered-after-Clean")
		return
	}
	zzv.Cover("trace-not-configured")
	zzv.Assert(o.id == id404 || o.id == id405, "no-trace-option:unregistered-TRACE-not-404-or-405")
	zzv.Assert((o.id == id404) == (w.status == 404), "no-trace-option:status")
	if path != "" && path != "*" {
		zzExpectDispatch("no-trace-option", m, path, "TRACE", o)
	}
	// an ordinary method: it can be registered and is then served
	p, _ := zzGuard(func() { r.Handle("/fresh", &hnd{id: 99}, nil, "TRACE") })
	zzv.Assert(!p, "no-trace-option:TRACE-cannot-be-registered")
	o2, _ := zzServe(r, zzReq("TRACE", "/fresh"))
	zzv.Assert(o2.id == 99, "no-trace-option:registered-TRACE-not-served")
}
