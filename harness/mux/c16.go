//go:build verif

package mux

import (
	"net/http"

	zzv "github.com/issue9/mux/v9/internal/zzverif"
	"github.com/issue9/mux/v9/types"
)

// ---- C16: recovery ----

var (
	zzBoomArmed bool
	zzBoomVal   any
)

// zzCallBoom: the CallFunc panics with the armed value (a user handler / middleware panicking).
func zzCallBoom(w http.ResponseWriter, r *http.Request, rt types.Route, h *hnd) {
	zzCall(w, r, rt, h)
	if zzBoomArmed {
		panic(zzBoomVal)
	}
}

type zzRec struct {
	calls int
	val   any
}

// ZZC16(n): n = config*100 + number of requests*10 + max param length.
// config: 0 router+recovery, 1 router without, 2 group+recovery, 3 group without, 4 router+WithStatusRecovery.
func ZZC16(n int) {
	cfg := n / 100
	rec := &zzRec{}
	recOpt := WithRecovery(func(w http.ResponseWriter, msg any) {
		rec.calls++
		rec.val = msg
		w.WriteHeader(500)
	})
	opts := []Option{WithDigitInterceptor("digit"), WithTrace[*hnd](&hnd{id: idTrc})}
	switch cfg {
	case 0, 2:
		opts = append(opts, recOpt)
	case 4:
		opts = append(opts, WithStatusRecovery(503))
	}
	var srv http.Handler
	var r *Router[*hnd]
	prefix := ""
	if cfg == 2 || cfg == 3 {
		g := NewGroup[*hnd](zzCallBoom, &hnd{id: id404}, zzB405, zzBOpt, opts...)
		r = g.New("r", NewPathVersion("", "v1"), WithURLDomain("http://x")) // an extra per-router option
		srv, prefix = g, "/v1"
	} else {
		r = NewRouter[*hnd]("r", zzCallBoom, &hnd{id: id404}, zzB405, zzBOpt, opts...)
		srv = r
	}
	r.Use(zzMW("U"))
	r.Handle("/a/{id:digit}", &hnd{id: 1}, []types.Middleware[*hnd]{zzMW("R")}, "GET")
	withRecovery := cfg == 0 || cfg == 2 || cfg == 4

	for i := 0; i < n/10%10; i++ {
		kind := zzv.Choice("kind", 7)
		method := []string{"GET", "HEAD", "OPTIONS", "POST", "GET", "TRACE", "GET"}[kind]
		path := prefix + "/a/" + zzv.Bytes("id", n%10)
		switch kind {
		case 4:
			path = prefix + "/zz"
		case 6:
			path = "/outside" // in a group: no router accepts -> the group's own not-found handler
		}
		boom := zzv.Choice("boom", 2) == 1
		var val any
		switch zzv.Choice("valkind", 3) {
		case 0:
			val = zzv.Int("pv")
		case 1:
			val = zzv.Bytes("pv", 2)
		default:
			val = http.ErrAbortHandler // an error value with a meaning elsewhere in net/http
		}
		zzBoomArmed, zzBoomVal = boom, val
		rec.calls, rec.val = 0, nil
		o := &zzObs{}
		zzO = o
		w := newW()
		var escaped any
		func() {
			defer func() { escaped = recover() }()
			srv.ServeHTTP(w, zzReq(method, path))
		}()
		zzBoomArmed = false
		zzv.Assert(o.calls == 1, "handler-not-called-exactly-once")
		zzv.Obs("id", o.id)
		if o.node && o.id != idTrc && o.pattern != "" {
			zzCheckRoute("served", o.pattern, o.path, o.params)
		}
		switch {
		case !boom:
			zzv.Cover("normal-request")
			zzv.Assert(escaped == nil, "panic-escaped-from-a-request-that-did-not-panic")
			zzv.Assert(cfg == 4 || rec.calls == 0, "recovery-function-called-without-a-panic")
			zzv.Assert(w.status != 500 && w.status != 503, "normal-request-answered-as-a-failure")
		case withRecovery:
			zzv.Cover("panic-contained")
			zzv.Assert(escaped == nil, "panic-escaped-ServeHTTP-despite-the-recovery-option")
			if cfg == 4 {
				zzv.Assert(w.status == 503 || w.sent, "status-recovery-did-not-answer")
			} else {
				zzv.Assert(rec.calls == 1, "recovery-function-not-called-exactly-once")
				zzv.Assert(rec.val == val, "recovery-function-did-not-receive-the-original-panic-value")
			}
		default:
			zzv.Cover("panic-passes-through")
			zzv.Assert(escaped != nil && escaped == val, "without-recovery-the-panic-value-does-not-reach-the-caller-unchanged")
		}
	}
}
