//go:build verif

package mux

import (
	"net/http"
	"strconv"

	zzv "github.com/issue9/mux/v9/internal/zzverif"
	"github.com/issue9/mux/v9/types"
)

// ---- C11 / C12: CORS ----

// (the second origin of list 3 is longer than a machine word has bits)
var zzOrigins = [][]string{nil, {"*"}, {"o1"}, {"o1", "https://preview-0123456789abcdef0123456789abcdef.deployments.example.org"}, {"o1", "*"}}
var zzAllowHdrs = [][]string{nil, {"*"}, {"X-A"}, {"X-A", "Content-Type"}, {"X-A", "b-c"}, {"X-Id", "X-A", "X^B"}, {"Content-Type", "*"}}

// requested header lists for the allowed list {"X-Id", "X-A"}: names that differ from an allowed
// name only by a non-ASCII letter whose lower/upper-case mapping is an ASCII letter
// (... or by a punctuation character that differs from an allowed one in bit 0x20 only)
var zzACRHTraps = []string{"X-\u0130d", "x-a, x-\u0130D", "X-\u0131d", "x-id", "x~b", "x^b, X-ID"}
var zzExposed = [][]string{nil, {"E1"}, {"E1", "E2"}}

func zzLower(c byte) byte {
	if c >= 'A' && c <= 'Z' {
		return c + 32
	}
	return c
}

func zzFold(a, b string) bool {
	if len(a) != len(b) {
		return false
	}
	for i := 0; i < len(a); i++ {
		if zzLower(a[i]) != zzLower(b[i]) {
			return false
		}
	}
	return true
}

// zzHeaderList: own parser of a comma separated header-name list (trim SP / HTAB).
func zzHeaderList(s string) []string {
	var out []string
	start := 0
	for i := 0; i <= len(s); i++ {
		if i == len(s) || s[i] == ',' {
			a, b := start, i
			for a < b && (s[a] == ' ' || s[a] == '\t') {
				a++
			}
			for b > a && (s[b-1] == ' ' || s[b-1] == '\t') {
				b--
			}
			out = append(out, s[a:b])
			start = i + 1
		}
	}
	return out
}

func zzVaryHas(h http.Header, name string) bool {
	for _, v := range h["Vary"] {
		for _, e := range zzHeaderList(v) {
			if zzFold(e, name) {
				return true
			}
		}
	}
	return false
}

var zzCORSHeaders = []string{"Access-Control-Allow-Origin", "Access-Control-Allow-Credentials", "Access-Control-Expose-Headers",
	"Access-Control-Allow-Methods", "Access-Control-Allow-Headers", "Access-Control-Max-Age", "Vary"}

// zzCallCORS: handler 9 adds a value of its own to every CORS response header (what it is given
// in w.Header() is its own to change; it must not show in any later response).
func zzCallCORS(w http.ResponseWriter, r *http.Request, rt types.Route, h *hnd) {
	if h.id == 9 {
		for _, k := range zzCORSHeaders {
			if v := w.Header()[k]; len(v) > 0 {
				v[0] += "-own" // in place: the slice it was handed is its own as well
			}
			w.Header().Add(k, "X-Own")
		}
	}
	zzCall(w, r, rt, h)
}

// ZZC11(n): n = originsIdx*1000 + allowHdrIdx*100 + max length of the free Access-Control-Request-Headers value.
func ZZC11(n int) {
	mode := n / 10000 // 0: both properties, 1: C11 only, 2: C12 only, 3: C12 after a request whose handler added to the CORS headers
	prime := mode == 3
	if prime {
		mode = 2
	}
	n %= 10000
	oi := n / 1000
	var origins, allowH []string
	switch oi {
	case 5: // WithAllowedCORS(maxAge): any origin, any header
		origins, allowH = []string{"*"}, []string{"*"}
	case 6: // WithDenyCORS()
	case 7: // a later WithDenyCORS overrides an earlier grant-all
	case 8: // a later WithCORS overrides an earlier deny
		origins, allowH = zzOrigins[2], zzAllowHdrs[2]
	default:
		origins = zzOrigins[oi]
		allowH = zzAllowHdrs[n/100%10]
	}
	anyOrigin := zzContains(origins, "*")
	var exposed []string
	cred := false
	maxAge := 0
	switch zzv.Choice("cfg", 3) {
	case 1:
		exposed, cred, maxAge = zzExposed[1], !anyOrigin, -1
	case 2:
		exposed = zzExposed[2]
		maxAge = zzv.Int("maxage")
		zzv.Assume(maxAge >= 1 && maxAge <= 99999)
	}
	var r *Router[*hnd]
	switch oi {
	case 5:
		exposed, cred = nil, false
		r = zzNewRouter("r", WithAllowedCORS(maxAge))
	case 6:
		r = zzNewRouter("r", WithDenyCORS())
	case 7:
		r = zzNewRouter("r", WithAllowedCORS(5), WithDenyCORS())
	case 8:
		r = zzNewRouter("r", WithDenyCORS(), WithCORS(origins, allowH, exposed, maxAge, cred))
	default:
		r = zzNewRouter("r", WithCORS(origins, allowH, exposed, maxAge, cred))
	}
	r.Handle("/a", &hnd{id: 1}, nil, "GET", "DELETE")
	r.Handle("/", &hnd{id: 2}, nil, "GET", "DELETE")
	// a registration that is rejected (GET is taken) after PUT was looked at: PUT stays unserved
	zzGuard(func() { r.Handle("/a", &hnd{id: 8}, nil, "PUT", "GET") })
	if prime {
		pr := NewRouter[*hnd]("r", zzCallCORS, &hnd{id: id404}, zzB405, zzBOpt, WithCORS(origins, allowH, exposed, maxAge, cred))
		pr.Handle("/a", &hnd{id: 1}, nil, "GET", "DELETE")
		pr.Handle("/", &hnd{id: 2}, nil, "GET", "DELETE")
		pr.Handle("/own", &hnd{id: 9}, nil, "GET")
		r = pr
		preq := zzReq("GET", "/own")
		if len(origins) > 0 {
			preq.Header.Set("Origin", origins[0])
		}
		zzServe(r, preq)
		ppre := zzReq("OPTIONS", "/own")
		if len(origins) > 0 {
			ppre.Header.Set("Origin", origins[0])
		}
		ppre.Header.Set("Access-Control-Request-Method", "GET")
		zzServe(r, ppre)
	}

	// the request
	// (the empty path selects the root node like "*" does, but is not exempt from preflight handling)
	rq := zzv.Choice("rq", 10)
	method := []string{"GET", "HEAD", "POST", "OPTIONS", "OPTIONS", "GET", "", "OPTIONS", "GET", "OPTIONS"}[rq]
	path := []string{"/a", "/a", "/a", "/a", "*", "/zz", "/a", "/", "/", ""}[rq]
	req := zzReq(method, path)
	norig := 2
	if len(origins) == 2 && !anyOrigin {
		norig = 3 // ... or exactly the last configured origin
	}
	oc := zzv.Choice("hasorigin", norig)
	hasOrigin := oc >= 1
	origin := ""
	if hasOrigin {
		origin = zzv.Bytes("origin", 2)
		if oc == 2 {
			origin = origins[len(origins)-1]
		}
		req.Header.Set("Origin", origin)
	}
	acrm := ""
	nacrm := 4
	if method != "OPTIONS" {
		nacrm = 2 // the header is irrelevant unless the method is OPTIONS: absent / present
	}
	pf := zzv.Choice("acrm", nacrm)
	switch pf {
	case 1:
		acrm = "GET"
	case 2:
		acrm = "PUT"
	case 3:
		acrm = zzv.Bytes("acrm", 3)
	}
	if acrm != "" {
		req.Header.Set("Access-Control-Request-Method", acrm)
	}
	acrh, hasACRH := "", false
	nacrh := 2
	if method == "OPTIONS" && pf == 1 {
		nacrh = 6 // the requested-headers dimension is explored on preflights for a served method
	}
	switch zzv.Choice("acrh", nacrh) {
	case 1:
		acrh, hasACRH = "X-B", true
	case 2:
		acrh, hasACRH = "content-type", true
	case 3:
		acrh, hasACRH = "X-A, Content-Type", true
	case 4:
		acrh, hasACRH = "x-a \t,\tCONTENT-TYPE", true
	case 5:
		if n/100%10 == 5 {
			acrh, hasACRH = zzACRHTraps[zzv.Choice("trap", len(zzACRHTraps))], true
			break
		}
		acrh, hasACRH = zzv.Bytes("acrh", n%100), true
		for i := 0; i < len(acrh); i++ {
			zzv.Assume(acrh[i] == '\t' || (acrh[i] >= 0x20 && acrh[i] <= 0x7e))
		}
	}
	if hasACRH {
		req.Header.Set("Access-Control-Request-Headers", acrh)
	}
	o, w := zzServe(r, req)
	h := w.h
	acao := zzHdr(h, "Access-Control-Allow-Origin")
	zzv.Obs("id", o.id)
	zzv.Obs("acao", acao)

	// a later request from another listed origin must not change what this response carries
	if len(origins) == 2 && !anyOrigin && hasOrigin && zzContains(origins, origin) {
		other := origins[0]
		if other == origin {
			other = origins[1]
		}
		req2 := zzReq("GET", "/a")
		req2.Header.Set("Origin", other)
		o2 := &zzObs{}
		zzO = o2
		r.ServeHTTP(newW(), req2)
		zzO = o
		zzv.Assert(zzHdr(h, "Access-Control-Allow-Origin") == acao, "C11:response-headers-changed-by-a-later-request")
	}

	// ---- reference decision ----
	routeAllow := []string{"DELETE", "GET", "HEAD", "OPTIONS"}
	served := false
	switch path {
	case "/a", "/":
		served = method == "GET" || method == "HEAD" || method == "OPTIONS"
	case "*", "":
		served = method == "OPTIONS"
	}
	deny := len(origins) == 0
	originListed := hasOrigin && zzContains(origins, origin)
	preflight := method == "OPTIONS" && acrm != "" && path != "*"
	methodOK := zzContains(routeAllow, acrm)
	anyHeaders := zzContains(allowH, "*")
	elems := zzHeaderList(acrh)
	allListed, someOutside, wellFormed := true, false, true
	if hasACRH && !anyHeaders {
		for _, e := range elems {
			if e == "" {
				if len(elems) > 1 || len(acrh) > 0 {
					wellFormed = false
				}
				continue
			}
			in := false
			for _, a := range allowH {
				if zzFold(a, e) {
					in = true
				}
			}
			if !in {
				allListed, someOutside = false, true
			}
		}
	}
	if len(elems) == 1 && elems[0] == "" {
		wellFormed = true // an empty / blank header asks for nothing
	}

	// ---- C11: never more than configured ----
	credHdr := zzHdr(h, "Access-Control-Allow-Credentials")
	if mode != 2 {
		zzv.Assert(acao == "" || (acao == "*;" && anyOrigin) || (acao == origin+";" && originListed && !anyOrigin), "C11:allow-origin-neither-star-nor-a-listed-origin")
		zzv.Assert(credHdr == "" || (credHdr == "true;" && cred && acao == origin+";" && originListed), "C11:credentials-without-an-echoed-listed-origin")
		if deny {
			zzv.Cover("deny")
			zzv.Assert(acao == "", "C11:allow-origin-without-configured-origins")
		}
		if !served {
			zzv.Cover("404-405")
			zzv.Assert(o.id == id404 || o.id == id405, "C11:unserved-request-not-404-405")
			zzv.Assert(acao == "" && credHdr == "", "C11:allow-origin-on-404-or-405")
		}
		if preflight && served && !methodOK {
			zzv.Cover("preflight-unserved-method")
			zzv.Assert(acao == "", "C11:allow-origin-on-preflight-for-unserved-method")
		}
		if preflight && served && someOutside {
			zzv.Cover("preflight-disallowed-header")
			zzv.Assert(acao == "", "C11:allow-origin-on-preflight-with-disallowed-header")
		}
	}

	// ---- C12: exactly what was configured, to allowed origins ----
	if mode == 1 || deny || !served || path == "" {
		return // (the empty path reaches the root node, whose Allow set is that of "OPTIONS *": C11 only)
	}
	grantOrigin := anyOrigin || originListed
	isPre := preflight && methodOK && (anyHeaders || !hasACRH || (allListed && wellFormed))
	refusedPre := preflight && !(methodOK && (anyHeaders || !hasACRH || allListed))
	if grantOrigin && !refusedPre && (!preflight || isPre) {
		zzv.Cover("grant")
		want := "*;"
		if !anyOrigin {
			want = origin + ";"
		}
		zzv.Assert(acao == want, "C12:allowed-origin-not-granted")
		wantCred := ""
		if cred {
			wantCred = "true;"
		}
		zzv.Assert(credHdr == wantCred, "C12:credentials-not-as-configured")
		zzv.Assert(zzHdr(h, "Access-Control-Expose-Headers") == zzJoinC(exposed), "C12:expose-headers-not-as-configured")
		if !anyOrigin {
			zzv.Assert(zzVaryHas(h, "Origin"), "C12:vary-misses-Origin")
		}
	}
	if isPre && grantOrigin {
		zzv.Cover("preflight-grant")
		zzv.Assert(zzHdr(h, "Access-Control-Allow-Methods") == zzJoin(routeAllow)+";", "C12:allow-methods-is-not-the-route-allow-set")
		wantAH := zzJoinC(allowH)
		if anyHeaders {
			wantAH = "*,Authorization;"
		}
		zzv.Assert(zzHdr(h, "Access-Control-Allow-Headers") == wantAH, "C12:allow-headers-not-as-configured")
		wantAge := ""
		if maxAge != 0 {
			wantAge = strconv.Itoa(maxAge) + ";"
		}
		zzv.Assert(zzHdr(h, "Access-Control-Max-Age") == wantAge, "C12:max-age-not-as-configured")
		zzv.Assert(zzVaryHas(h, "Access-Control-Request-Method"), "C12:vary-misses-Access-Control-Request-Method")
		if len(allowH) > 0 {
			zzv.Assert(zzVaryHas(h, "Access-Control-Request-Headers"), "C12:vary-misses-Access-Control-Request-Headers")
		}
	}
	if !preflight {
		zzv.Cover("not-a-preflight")
		zzv.Assert(zzHdr(h, "Access-Control-Allow-Methods") == "" && zzHdr(h, "Access-Control-Allow-Headers") == "" && zzHdr(h, "Access-Control-Max-Age") == "", "C12:preflight-only-header-on-a-non-preflight")
	}
}

func zzJoinC(l []string) string {
	if len(l) == 0 {
		return ""
	}
	s := ""
	for i, x := range l {
		if i > 0 {
			s += ","
		}
		s += x
	}
	return s + ";"
}
