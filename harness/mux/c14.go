//go:build verif

package mux

import (
	"strings"

	"github.com/issue9/mux/v9/internal/syntax"
	zzv "github.com/issue9/mux/v9/internal/zzverif"
	"github.com/issue9/mux/v9/types"
)

// ---- C14: Hosts matcher ----

type zzHostOp struct {
	k int // 0 Add, 1 Delete, 2 RegisterInterceptor(digit), 3 RegisterInterceptor under the name \\d+
	d []string
}

var zzC14Alpha = [][]zzHostOp{
	{
		{0, []string{"API.b.co"}}, {0, []string{"{sub}.b.co"}}, {0, []string{"c.d"}}, {1, []string{"api.B.co"}}, {1, []string{"{sub}.b.co"}},
		{1, []string{"nope"}}, {1, []string{"C.D"}}, {0, []string{"B.co"}}, {0, []string{"::1"}},
	},
	{
		{0, []string{"a1.e", "b2.e", "c3.e", "D4.e", "e5.e", "f6.e"}}, {0, []string{"{w}.e"}}, {1, []string{"C3.E"}}, {1, []string{"a1.e"}}, {1, []string{"f6.e"}},
		{1, []string{"{w}.e"}}, {2, nil}, {0, []string{"{n:digit}.e"}}, {0, []string{"\u00dcx.e"}},
	},
	{ // 2: six literal domains + wildcard, then two domains sharing a first byte come and go (two-level pruning under the indexed root)
		{1, []string{"fox.e"}}, {1, []string{"FIG.e"}}, {1, []string{"a1.e"}}, {1, []string{"{w}.e"}},
	},
	{ // 3: sibling parameter domains; the one tried first is a leaf that matches only a proper prefix of the host
		{0, []string{"{k:\\d+}.e"}}, {0, []string{"{z}.e.f"}}, {0, []string{"{w}.e"}}, {1, []string{"{z}.E.F"}},
	},
	{ // 4 (after a setup in which the rule text \d+ became an interceptor between two Adds): the same rule text is a regexp node in one domain and an interceptor node in the other
		{1, []string{"{s:\\d+}.x.y"}}, {1, []string{"{s:\\d+}.x"}}, {0, []string{"{t:\\d+}.x.z"}}, {1, []string{"q.x"}},
	},
}

var zzHostTraps = []string{"b.co:\u0668\u0660", "x.b.co:\u0661", "c.d:\uff18", "a1.e:8\u0660", "q.e:\u00b2", "api.b.co:\u0967", "\u00dcx.e", "\u00fcx.e:80", "\u00dcX.e"}

// zzC14Setup: operations applied before the explored history.
var zzC14Setup = [][]zzHostOp{nil, nil, {{0, []string{"a1.e", "b2.e", "c3.e", "d4.e", "e5.e", "{w}.e"}}, {0, []string{"fox.e", "fig.e"}}}, nil,
	{{0, []string{"{s:\\d+}.x.y", "q.x"}}, {3, nil}, {0, []string{"{s:\\d+}.x"}}}}

// ZZC14(n): n = alphabet*1000 + depth*100 + max host length.
func ZZC14(n int) {
	alpha := zzC14Alpha[n/1000]
	hs := NewHosts(false)
	var model []string // lower-cased live domains
	digit := false
	nsetup := len(zzC14Setup[n/1000])
	for i := 0; i < nsetup+n/100%10; i++ {
		var op zzHostOp
		if i < nsetup {
			op = zzC14Setup[n/1000][i]
		} else {
			op = alpha[zzv.Choice("op", len(alpha))]
		}
		switch op.k {
		case 0:
			for _, d := range op.d {
				ld := strings.ToLower(d)
				zzv.Assume(!zzContains(model, ld))
				if ld == "{n:digit}.e" {
					zzv.Assume(digit) // without the interceptor "digit" would be taken as a regexp
				}
				model = append(model, ld)
			}
			hs.Add(op.d...)
		case 1:
			hs.Delete(op.d[0])
			ld := strings.ToLower(op.d[0])
			var keep []string
			for _, d := range model {
				if d != ld {
					keep = append(keep, d)
				}
			}
			model = keep
		case 2:
			zzv.Assume(!digit)
			digit = true
			hs.RegisterInterceptor(syntax.MatchDigit, "digit")
		case 3: // the rule text of an already registered regexp domain becomes the name of an interceptor (same language)
			hs.RegisterInterceptor(syntax.MatchDigit, "\\d+")
		}
	}
	zzv.Cover("host-history")
	// every ASCII host of the bound, or one of a few concrete hosts whose port consists of
	// non-ASCII digits (an invalid port: nothing is stripped, no domain resolves)
	var host string
	if t := zzv.Choice("trap", 1+len(zzHostTraps)); t > 0 {
		host = zzHostTraps[t-1]
	} else {
		host = zzv.Bytes("h", n%100)
		zzv.Assume(zzASCII(host))
	}
	req := zzReq("GET", "/")
	req.Host = host
	ctx := types.NewContext()
	ok := hs.Match(req, ctx)
	zzv.Obs("ok", ok)

	cs := make([]rcand, len(model))
	for i, d := range model {
		cs[i] = rcand{i + 1, d}
	}
	norm := zzNormHost(host)
	var adm []routcome
	if norm != "" && norm != "*" {
		adm = refResolve(cs, norm, nil)
	} else {
		return // the empty host and "*" select the tree's internal node: outside the resolution rules
	}
	if !ok {
		zzv.Cover("host-rejected")
		zzv.Assert(len(adm) == 0, "hosts:rejects-a-host-that-resolves-to-a-registered-domain")
		return
	}
	zzv.Cover("host-accepted")
	zzv.Assert(len(adm) > 0, "hosts:accepts-a-host-that-resolves-to-no-registered-domain")
	good := false
	for _, a := range adm {
		if sameOutcome(routcome{0, a.ps}, 0, ctx) {
			good = true
		}
	}
	if ctx.Count() > 0 {
		zzv.Cover("host-params")
	}
	zzv.Assert(good, "hosts:reported-params-are-not-those-of-the-resolved-domain")
}
