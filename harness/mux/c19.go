//go:build verif

package mux

import (
	zzv "github.com/issue9/mux/v9/internal/zzverif"
	"github.com/issue9/mux/v9/types"
)

// ---- C19: Prefix and Resource are pure shorthand ----

func zzMWs(tags ...string) []types.Middleware[*hnd] {
	out := make([]types.Middleware[*hnd], len(tags))
	for i, t := range tags {
		out[i] = zzMW(t)
	}
	return out
}

// zzC19Step applies operation op through the facades on a and desugared on b.
// m is the model of the (common) table. false = not applicable in this state.
func zzC19Step(a, b *Router[*hnd], m *zzModel, op, i int) bool {
	h := &hnd{id: 10 + i}
	switch op {
	case 0:
		if m.handlerID("/p/x", "GET") != 0 {
			return false
		}
		a.Prefix("/p", zzMW("P1")).Get("/x", h, zzMW("R1"))
		b.Handle("/p/x", h, zzMWs("R1", "P1"), "GET")
		m.add("/p/x", h.id, "GET")
	case 1:
		if m.handlerID("/y/{id}", "POST") != 0 {
			return false
		}
		a.Prefix("", zzMWs("P2", "P3")...).Post("/y/{id}", h)
		b.Handle("/y/{id}", h, zzMWs("P2", "P3"), "POST")
		m.add("/y/{id}", h.id, "POST")
	case 2: // a prefix that ends inside a parameter token
		if m.handlerID("/p/{k}/z", "GET") != 0 {
			return false
		}
		a.Prefix("/p/{k").Get("}/z", h)
		b.Handle("/p/{k}/z", h, nil, "GET")
		m.add("/p/{k}/z", h.id, "GET")
	case 3:
		if m.find("/p/q/w") >= 0 {
			return false
		}
		a.Prefix("/p", zzMW("P1")).Prefix("/q", zzMWs("Q1", "Q2")...).Any("/w", h, zzMW("R2"))
		b.Handle("/p/q/w", h, zzMWs("R2", "Q1", "Q2", "P1"))
		m.add("/p/q/w", h.id, "GET", "POST", "DELETE", "PUT", "PATCH", "CONNECT")
	case 4:
		if m.handlerID("/r/{id}", "GET") != 0 || m.handlerID("/r/{id}", "DELETE") != 0 {
			return false
		}
		res := a.Resource("/r/{id}", zzMW("S1"))
		res.Get(h, zzMW("R3"))
		res.Delete(&hnd{id: 30 + i})
		b.Handle("/r/{id}", h, zzMWs("R3", "S1"), "GET")
		b.Handle("/r/{id}", &hnd{id: 30 + i}, zzMWs("S1"), "DELETE")
		m.add("/r/{id}", h.id, "GET")
		m.add("/r/{id}", 30+i, "DELETE")
	case 5:
		a.Prefix("/p").Resource("/x").Remove("GET")
		b.Remove("/p/x", "GET")
		m.remove("/p/x", "GET")
	case 6: // Prefix.Clean removes exactly the routes whose pattern starts with the prefix
		a.Prefix("/p").Clean()
		for _, rt := range append([]zzRoute{}, m.routes...) {
			if len(rt.p) >= 2 && rt.p[:2] == "/p" {
				b.Remove(rt.p)
			}
		}
		m.clean("/p")
	case 7:
		a.Resource("/r/{id}").Clean()
		b.Remove("/r/{id}")
		m.remove("/r/{id}")
	case 8:
		a.Prefix("/p").Prefix("/q").Remove("/w", "POST", "PUT")
		b.Remove("/p/q/w", "POST", "PUT")
		m.remove("/p/q/w", "POST", "PUT")
	case 10: // a prefix that reaches into a parameter segment
		a.Prefix("/p").Prefix("/{k").Clean()
		for _, rt := range append([]zzRoute{}, m.routes...) {
			if len(rt.p) >= 5 && rt.p[:5] == "/p/{k" {
				b.Remove(rt.p)
			}
		}
		m.clean("/p/{k")
	case 11: // a prefix that is itself a parameter route, with a route below it, is cleaned through the same Prefix object
		if m.find("/r2/{id}") >= 0 || m.find("/r2/{id}/s") >= 0 {
			return false
		}
		pp := a.Prefix("/r2/{id}")
		pp.Get("", h)
		pp.Get("/s", &hnd{id: 30 + i})
		pp.Clean()
		b.Handle("/r2/{id}", h, nil, "GET").Handle("/r2/{id}/s", &hnd{id: 30 + i}, nil, "GET")
		b.Remove("/r2/{id}")
		b.Remove("/r2/{id}/s")
	case 12: // a Resource object that outlives its route: its strict URL follows the table, not its own history
		if m.find("/p/x") >= 0 {
			return false
		}
		res := a.Prefix("/p").Resource("/x")
		res.Get(h)
		b.Handle("/p/x", h, nil, "GET")
		u1, e1 := res.URL(true, nil)
		w1, f1 := b.URL(true, "/p/x", nil)
		zzv.Assert(u1 == w1 && (e1 == nil) == (f1 == nil), "Resource.URL-differs-from-Router.URL")
		a.Prefix("/p/x").Clean()
		b.Remove("/p/x")
		u2, e2 := res.URL(true, nil)
		w2, f2 := b.URL(true, "/p/x", nil)
		zzv.Assert(u2 == w2 && (e2 == nil) == (f2 == nil), "Resource.URL-after-the-route-was-removed-through-another-handle-differs-from-Router.URL")
	case 13: // a Prefix object created before a Use: routes registered through it afterwards get the new middleware too
		if m.handlerID("/q2/after", "GET") != 0 {
			return false
		}
		pq := a.Prefix("/q2", zzMW("P5"))
		a.Use(zzMW("U" + string(rune('0'+i))))
		b.Use(zzMW("U" + string(rune('0'+i))))
		pq.Get("/after", h, zzMW("R5"))
		b.Handle("/q2/after", h, zzMWs("R5", "P5"), "GET")
		m.add("/q2/after", h.id, "GET")
		for _, x := range []string{"GET", "OPTIONS", "PUT"} {
			oa, _ := zzServe(a, zzReq(x, "/q2/after"))
			ob, _ := zzServe(b, zzReq(x, "/q2/after"))
			zzv.Assert(oa.id == ob.id && zzSameChain(oa.chain, ob.chain), "middleware-order-differs-from-the-desugared-table")
		}
	case 9:
		if m.handlerID("/p/q/v", "PUT") != 0 {
			return false
		}
		a.Prefix("/p", zzMW("P4")).Resource("/q/v", zzMW("T1")).Put(h, zzMW("R4"))
		b.Handle("/p/q/v", h, zzMWs("R4", "T1", "P4"), "PUT")
		m.add("/p/q/v", h.id, "PUT")
	}
	return true
}

func zzRoutesString(r *Router[*hnd]) string {
	rs := r.Routes()
	s := ""
	for _, p := range []string{"*", "/p/x", "/y/{id}", "/p/{k}/z", "/p/q/w", "/r/{id}", "/p/q/v", "/p/1", "/p/2", "/p/3", "/p/4", "/p/5", "/p", "/r2/{id}", "/r2/{id}/s", "/q2/after"} {
		if ms, ok := rs[p]; ok {
			s += p + "=" + zzJoin(ms) + ";"
		}
	}
	return s + string(rune('a'+len(rs)))
}

// ZZC19(n): n = program length*10 + max probe path length.
func ZZC19(n int) {
	a := zzNewRouter("r", WithURLDomain("http://d"))
	b := zzNewRouter("r", WithURLDomain("http://d"))
	a.Use(zzMW("U"))
	b.Use(zzMW("U"))
	m := &zzModel{}
	if n >= 100 {
		// a populated table: five literal siblings (first-byte index) next to a parameter route under /p/
		for i, p := range []string{"/p/1", "/p/2", "/p/3", "/p/4", "/p/5", "/p/{k}/z", "/p"} {
			a.Handle(p, &hnd{id: 60 + i}, nil, "GET")
			b.Handle(p, &hnd{id: 60 + i}, nil, "GET")
			m.add(p, 60+i, "GET")
		}
		n -= 100
	}
	for i := 0; i < n/10; i++ {
		if !zzC19Step(a, b, m, zzv.Choice("op", 14), i) {
			zzv.Assume(false)
		}
	}
	zzv.Cover("program")
	zzv.Assert(zzRoutesString(a) == zzRoutesString(b), "routes-differ-from-the-desugared-table")
	zzCheckRoutes("facade", a, m, false)

	// the same symbolic request on both routers
	path := zzv.Bytes("p", n%10)
	method := []string{"GET", "POST", "OPTIONS", "HEAD", "PUT", "DELETE"}[zzv.Choice("m", 6)]
	zzv.Assume(path != "" && path != "*")
	oa, wa := zzServe(a, zzReq(method, path))
	ob, wb := zzServe(b, zzReq(method, path))
	zzv.Obs("id", oa.id)
	zzv.Assert(oa.id == ob.id && oa.node == ob.node && wa.status == wb.status, "dispatch-differs-from-the-desugared-table")
	if oa.node && ob.node {
		zzv.Cover("facade-route-reached")
		zzv.Assert(oa.pattern == ob.pattern && oa.allow == ob.allow, "pattern-or-allow-differs-from-the-desugared-table")
		zzv.Assert(wa.h.Get("Allow") == wb.h.Get("Allow"), "allow-header-differs-from-the-desugared-table")
		zzv.Assert(oa.params.equal(ob.params), "params-differ-from-the-desugared-table")
	}
	zzv.Assert(zzSameChain(oa.chain, ob.chain), "middleware-order-differs-from-the-desugared-table")
	zzExpectDispatch("facade", m, path, method, oa)

	// URL methods equal the Router call on the concatenated pattern
	v := zzv.Bytes("v", 2)
	ps := map[string]string{"id": v, "k": v}
	for _, strict := range []bool{false, true} {
		u1, e1 := a.Prefix("/p").URL(strict, "/{k}/z", ps)
		u2, e2 := b.URL(strict, "/p/{k}/z", ps)
		zzv.Assert(u1 == u2 && (e1 == nil) == (e2 == nil), "Prefix.URL-differs-from-Router.URL")
		u1, e1 = a.Resource("/r/{id}").URL(strict, ps)
		u2, e2 = b.URL(strict, "/r/{id}", ps)
		zzv.Assert(u1 == u2 && (e1 == nil) == (e2 == nil), "Resource.URL-differs-from-Router.URL")
		u1, e1 = a.Prefix("/p").Prefix("/q").URL(strict, "/w", nil)
		u2, e2 = b.URL(strict, "/p/q/w", nil)
		zzv.Assert(u1 == u2 && (e1 == nil) == (e2 == nil), "nested-Prefix.URL-differs-from-Router.URL")
	}
}

// ZZC19Verbs(n): every verb shorthand of Router, Prefix and Resource against the explicit Handle call.
func ZZC19Verbs(n int) {
	a := zzNewRouter("r")
	b := zzNewRouter("r")
	h := func(i int) *hnd { return &hnd{id: i} }
	// Router shorthands
	a.Get("/g", h(1), zzMW("M1")).Post("/g", h(2)).Delete("/g", h(3), zzMW("M3")).Put("/g", h(4)).Patch("/g", h(5), zzMWs("M5a", "M5b")...).Any("/any", h(6), zzMW("M6"))
	b.Handle("/g", h(1), zzMWs("M1"), "GET").Handle("/g", h(2), nil, "POST").Handle("/g", h(3), zzMWs("M3"), "DELETE").Handle("/g", h(4), nil, "PUT").Handle("/g", h(5), zzMWs("M5a", "M5b"), "PATCH").Handle("/any", h(6), zzMWs("M6"))
	// Prefix shorthands
	p := a.Prefix("/p", zzMW("P"))
	p.Get("/x/{v}", h(11)).Post("/x/{v}", h(12), zzMW("M12")).Delete("/x/{v}", h(13)).Put("/x/{v}", h(14)).Patch("/x/{v}", h(15)).Any("/pany", h(16)).Handle("/ph", h(17), zzMWs("M17"), "CONNECT", "GET")
	b.Handle("/p/x/{v}", h(11), zzMWs("P"), "GET").Handle("/p/x/{v}", h(12), zzMWs("M12", "P"), "POST").Handle("/p/x/{v}", h(13), zzMWs("P"), "DELETE").Handle("/p/x/{v}", h(14), zzMWs("P"), "PUT").Handle("/p/x/{v}", h(15), zzMWs("P"), "PATCH").Handle("/p/pany", h(16), zzMWs("P")).Handle("/p/ph", h(17), zzMWs("M17", "P"), "CONNECT", "GET")
	// Resource shorthands (through a prefix)
	res := p.Resource("/r/{id:digit}", zzMW("S"))
	res.Get(h(21)).Post(h(22)).Delete(h(23), zzMW("M23")).Put(h(24)).Patch(h(25))
	b.Handle("/p/r/{id:digit}", h(21), zzMWs("S", "P"), "GET").Handle("/p/r/{id:digit}", h(22), zzMWs("S", "P"), "POST").Handle("/p/r/{id:digit}", h(23), zzMWs("M23", "S", "P"), "DELETE").Handle("/p/r/{id:digit}", h(24), zzMWs("S", "P"), "PUT").Handle("/p/r/{id:digit}", h(25), zzMWs("S", "P"), "PATCH")
	res2 := a.Resource("/q", zzMW("T"))
	res2.Any(h(31)).Remove("PUT", "GET")
	b.Handle("/q", h(31), zzMWs("T")).Remove("/q", "PUT", "GET")
	// caller-owned middleware slices with spare capacity must not be written to
	base := make([]types.Middleware[*hnd], 0, 4)
	base = append(base, zzMW("Ba"))
	audit := append(base, zzMW("Bb"))
	p.Handle("/al1", h(41), base, "GET")
	p.Handle("/al2", h(42), audit, "GET")
	res3 := p.Resource("/al3", zzMW("S3"))
	res3.Handle(h(43), base, "GET")
	res3.Handle(h(44), audit, "POST")
	p.Prefix("/al4", base...).Get("/x", h(45))
	p.Prefix("/al5", audit...).Get("/x", h(46))
	p.Resource("/al6", base...).Get(h(47))
	p.Resource("/al7", audit...).Get(h(48))
	// TRACE registered by hand on a resource (no WithTrace), then the resource is cleaned
	rt := a.Resource("/tr", zzMW("T2"))
	rt.Handle(h(51), nil, "TRACE", "GET")
	rt.Clean()
	rt2 := a.Resource("/tr2")
	rt2.Handle(h(52), nil, "TRACE", "POST")
	rt2.Remove()
	// ... and below a prefix that is cleaned (the method counters behind "OPTIONS *" must be released)
	pt := a.Prefix("/pt")
	pt.Handle("/t", h(53), nil, "TRACE")
	pt.Handle("/u", h(54), nil, "TRACE", "CONNECT")
	pt.Clean()
	b.Handle("/pt/t", h(53), nil, "TRACE").Handle("/pt/u", h(54), nil, "TRACE", "CONNECT").Remove("/pt/t")
	b.Remove("/pt/u")
	b.Handle("/p/al1", h(41), zzMWs("Ba", "P"), "GET").Handle("/p/al2", h(42), zzMWs("Ba", "Bb", "P"), "GET")
	b.Handle("/p/al3", h(43), zzMWs("Ba", "S3", "P"), "GET").Handle("/p/al3", h(44), zzMWs("Ba", "Bb", "S3", "P"), "POST")
	b.Handle("/p/al4/x", h(45), zzMWs("Ba", "P"), "GET").Handle("/p/al5/x", h(46), zzMWs("Ba", "Bb", "P"), "GET")
	b.Handle("/p/al6", h(47), zzMWs("Ba", "P"), "GET").Handle("/p/al7", h(48), zzMWs("Ba", "Bb", "P"), "GET")
	b.Handle("/tr", h(51), zzMWs("T2"), "TRACE", "GET").Remove("/tr")
	b.Handle("/tr2", h(52), nil, "TRACE", "POST").Remove("/tr2")
	zzv.Assert(p.Pattern() == "/p" && res.Pattern() == "/p/r/{id:digit}" && p.Router() == a && res.Router() == a, "facade-accessors")
	zzv.Cover("verbs")

	ra, rb := a.Routes(), b.Routes()
	zzv.Assert(len(ra) == len(rb), "verbs:routes-differ")
	for _, pat := range []string{"/g", "/any", "/p/x/{v}", "/p/pany", "/p/ph", "/p/r/{id:digit}", "/q", "*"} {
		zzv.Assert(zzJoin(ra[pat]) == zzJoin(rb[pat]) && len(ra[pat]) > 0, "verbs:method-set-differs-from-explicit-Handle")
	}
	val := zzv.Bytes("v", n)
	for _, path := range []string{"/g", "/any", "/p/x/" + val, "/p/pany", "/p/ph", "/p/r/" + val, "/q", "/p/al1", "/p/al2", "/p/al3", "/p/al4/x", "/p/al5/x", "/p/al6", "/p/al7", "/tr", "/tr2", "/pt/t", "*"} {
		for _, m := range []string{"GET", "POST", "DELETE", "PUT", "PATCH", "CONNECT", "HEAD", "OPTIONS", "TRACE"} {
			oa, wa := zzServe(a, zzReq(m, path))
			ob, wb := zzServe(b, zzReq(m, path))
			zzv.Assert(oa.id == ob.id && wa.status == wb.status && zzSameChain(oa.chain, ob.chain) && wa.h.Get("Allow") == wb.h.Get("Allow"), "verbs:shorthand-differs-from-explicit-Handle")
		}
	}
}
