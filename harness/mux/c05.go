//go:build verif

package mux

import (
	"net/http"
	"strings"

	zzv "github.com/issue9/mux/v9/internal/zzverif"
	"github.com/issue9/mux/v9/types"
)

// ---- C05: no request and no pattern string can crash the router ----

// zzGuard runs f and reports (panicked, runtime fault).
func zzGuard(f func()) (panicked, runtime bool) {
	defer func() {
		if r := recover(); r != nil {
			panicked = true
			runtime = zzv.IsRuntime(r)
		}
	}()
	f()
	return
}

func zzASCII(s string) bool {
	for i := 0; i < len(s); i++ {
		if s[i] >= 0x80 {
			return false
		}
	}
	return true
}

// ZZC05Req(n): n = table*100 + maxLen. Any method string (<= 4 free bytes), any path.
func ZZC05Req(n int) {
	r, _ := zzBuild(zzTables[n/100])
	path := zzv.Bytes("p", n%100)
	method := zzv.Bytes("m", 4)
	o := &zzObs{}
	zzO = o
	w := newW()
	p, rt := zzGuard(func() { r.ServeHTTP(w, zzReq(method, path)) })
	zzv.Cover("request")
	zzv.Obs("id", o.id)
	zzv.Assert(!rt, "request:runtime-fault-in-ServeHTTP")
	zzv.Assert(!p, "request:panic-in-ServeHTTP")
	zzv.Assert(o.calls == 1, "request:handler-not-called-exactly-once")
}

// ZZC05Grp(n): Group.ServeHTTP with host, path-version and header-version matchers.
func ZZC05Grp(n int) {
	g := NewGroup[*hnd](zzCall, &hnd{id: id404}, zzB405, zzBOpt, WithDigitInterceptor("digit"))
	r1 := g.New("hosts", NewHosts(false, "a.co", "{sub}.b.co", "{n:digit}.c"))
	r1.Handle("/x/{id}", &hnd{id: 1}, nil, "GET")
	r2 := g.New("pver", NewPathVersion("v", "v1", "v2/"))
	r2.Handle("/x", &hnd{id: 2}, nil, "GET", "POST")
	r3 := g.New("hver", NewHeaderVersion("v", "", func(error) {}, "1", "2"))
	r3.Handle("/{p}", &hnd{id: 3}, nil, "GET")
	r4 := g.New("and", AndMatcher(NewPathVersion("", "v3"), NewHosts(true, "z.co")))
	r4.Handle("/", &hnd{id: 4}, nil)

	host := zzv.Bytes("h", n/10)
	zzv.Assume(zzASCII(host))
	path := zzv.Bytes("p", n%10)
	method := []string{"GET", "POST", "OPTIONS", "", "X"}[zzv.Choice("m", 5)]
	accept := []string{"", "a/b; version=1", "a/b;version=3", "garbage;;=", "a/b; version=\"2\"", "\xff"}[zzv.Choice("a", 6)]
	req := zzReq(method, path)
	req.Host = host
	if accept != "" {
		req.Header.Set("Accept", accept)
	}
	o := &zzObs{}
	zzO = o
	w := newW()
	p, rt := zzGuard(func() { g.ServeHTTP(w, req) })
	zzv.Cover("group-request")
	zzv.Obs("id", o.id)
	zzv.Obs("router", o.router)
	zzv.Assert(!rt, "group:runtime-fault-in-ServeHTTP")
	zzv.Assert(!p, "group:panic-in-ServeHTTP")
	zzv.Assert(o.calls == 1, "group:handler-not-called-exactly-once")
}

// ZZC05Host(n): Hosts.Match on any ASCII Host of <= n bytes.
func ZZC05Host(n int) {
	hs := NewHosts(false, "a.co", "{sub}.b.co", "b.co", "c1.d", "c2.d", "c3.d", "c4.d", "c5.d", "{any}.d")
	hs.Delete("c2.d")
	host := zzv.Bytes("h", n)
	zzv.Assume(zzASCII(host))
	req := zzReq("GET", "/")
	req.Host = host
	ctx := types.NewContext()
	var ok bool
	p, rt := zzGuard(func() { ok = hs.Match(req, ctx) })
	zzv.Cover("host-match")
	zzv.Obs("ok", ok)
	zzv.Assert(!rt && !p, "hosts:panic-in-Match")
}

// ZZC05Ver(n): version matchers on any path / a table of Accept headers.
func ZZC05Ver(n int) {
	pv := NewPathVersion("v", "v1", "/v2", "v11/")
	switch zzv.Choice("versions", 3) {
	case 1:
		pv = NewPathVersion("v") // no version listed (allowed)
	case 2:
		pv = NewPathVersion("", "/")
	}
	path := zzv.Bytes("p", n)
	req := zzReq("GET", path)
	ctx := types.NewContext()
	p, _ := zzGuard(func() { pv.Match(req, ctx) })
	zzv.Cover("version-match")
	zzv.Assert(!p, "version:panic-in-Match")
}

// ZZC05Pat(n): every pattern string of <= n bytes.
func ZZC05Pat(n int) {
	pat := zzv.Bytes("pat", n)
	switch zzv.Choice("long", 3) { // ... or a static / parameterised pattern longer than the documented segment limit
	case 1:
		pat = "/a" + strings.Repeat("x", 40000)
	case 2:
		pat = "/b/{" + strings.Repeat("n", 33000) + "}"
	}
	var synErr error
	p, _ := zzGuard(func() { synErr = CheckSyntax(pat) })
	zzv.Assert(!p, "pattern:CheckSyntax-panics")
	zzv.Obs("syntax-ok", synErr == nil)

	p, _ = zzGuard(func() { URL(pat, map[string]string{"a": "1", "": "2"}) })
	zzv.Assert(!p, "pattern:URL-panics")

	plain := func() *Router[*hnd] { return NewRouter[*hnd]("r", zzCall, &hnd{id: id404}, zzB405, zzBOpt) }
	r := plain()
	p, _ = zzGuard(func() { r.URL(false, pat, map[string]string{"a": "1"}) })
	zzv.Assert(!p, "pattern:Router.URL-panics")
	p, _ = zzGuard(func() { r.URL(true, pat, map[string]string{"a": "1"}) })
	zzv.Assert(!p, "pattern:strict-Router.URL-panics")

	// Handle on an empty router: registers, or panics with an error value; agrees with CheckSyntax
	var rec any
	func() {
		defer func() { rec = recover() }()
		r.Handle(pat, &hnd{id: 1}, nil, http.MethodGet)
	}()
	if rec != nil {
		zzv.Cover("handle-rejected")
		zzv.Assert(!zzv.IsRuntime(rec), "pattern:Handle-runtime-fault")
		_, isErr := rec.(error)
		zzv.Assert(isErr, "pattern:Handle-panics-with-a-non-error-value")
		zzv.Assert(synErr != nil, "pattern:Handle-rejects-what-CheckSyntax-accepts")
	} else {
		zzv.Cover("handle-registered")
		zzv.Assert(synErr == nil, "pattern:Handle-registers-what-CheckSyntax-rejects")
		_, listed := r.Routes()[pat]
		zzv.Assert(listed, "pattern:registered-pattern-not-in-Routes")
		// an accepted pattern does not poison later, unrelated registrations
		// (the literal part is longer than any symbolic pattern, so the two cannot be ambiguous with each other)
		p, _ = zzGuard(func() { r.Handle("/zzzzzzzzz/{q}", &hnd{id: 5}, nil, http.MethodPut) })
		zzv.Assert(!p, "pattern:a-later-valid-registration-panics")
		o, _ := zzServe(r, zzReq("PUT", "/zzzzzzzzz/1"))
		zzv.Assert(o.id == 5 || (o.node && o.pattern == pat), "pattern:a-later-valid-registration-is-not-served") // (pat itself may have priority)
	}

	// Handle on a router that already has routes (splits, ambiguity check): no runtime fault
	r2 := plain()
	r2.Handle("/a/{x}", &hnd{id: 2}, nil, http.MethodGet)
	r2.Handle("{y}b", &hnd{id: 3}, nil, http.MethodGet)
	rec = nil
	func() {
		defer func() { rec = recover() }()
		r2.Handle(pat, &hnd{id: 1}, nil, http.MethodPost)
	}()
	if rec != nil {
		zzv.Assert(!zzv.IsRuntime(rec), "pattern:Handle-runtime-fault-on-populated-router")
	}
}

var zzRuleAlphabets = [][]string{{"a", "(", ")", "|", "?", "*", "\\", "b"}, {"a", "(", ")", "|", "b"},
	{"[(]", "[)]", "(", ")", "|", "a"}} // 2: parentheses hidden in character classes

// ZZC05Rule(n): patterns whose regexp rule is every string of <= n/10 symbols over a small
// alphabet of metacharacters; every pattern Handle accepts must then serve every path of
// <= n%10 bytes without a runtime fault. n = alphabet*100 + maxSymbols*10 + maxPathLen.
func ZZC05Rule(n int) {
	rule := ""
	alpha := zzRuleAlphabets[n/100]
	n %= 100
	k := zzv.Choice("len", n/10) + 1
	for i := 0; i < k; i++ {
		rule += alpha[zzv.Choice("sym", len(alpha))]
	}
	pat := "/{id:" + rule + "}" + []string{"", "x"}[zzv.Choice("suffix", 2)]
	r := NewRouter[*hnd]("r", zzCall, &hnd{id: id404}, zzB405, zzBOpt)
	var rec any
	func() {
		defer func() { rec = recover() }()
		r.Handle(pat, &hnd{id: 1}, nil, "GET")
	}()
	if rec != nil {
		zzv.Cover("rule-rejected")
		zzv.Assert(!zzv.IsRuntime(rec), "rule:Handle-runtime-fault")
		zzv.Assert((CheckSyntax(pat) != nil), "rule:Handle-rejects-what-CheckSyntax-accepts")
		return
	}
	zzv.Cover("rule-accepted")
	zzv.Assert(CheckSyntax(pat) == nil, "rule:Handle-registers-what-CheckSyntax-rejects")
	path := zzv.Bytes("p", n%10)
	o := &zzObs{}
	zzO = o
	w := newW()
	p, rt := zzGuard(func() { r.ServeHTTP(w, zzReq("GET", path)) })
	zzv.Obs("id", o.id)
	zzv.Assert(!rt, "rule:runtime-fault-serving-a-pattern-that-Handle-accepted")
	zzv.Assert(!p && o.calls == 1, "rule:panic-serving-a-pattern-that-Handle-accepted")
	if o.id == 1 {
		zzv.Cover("rule-served")
		v, ok := o.params.Get("id")
		zzv.Assert(ok && o.params.Count() == 1 && len(v) <= len(path), "rule:served-without-its-parameter")
	}
}
