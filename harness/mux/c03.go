//go:build verif

package mux

import (
	zzv "github.com/issue9/mux/v9/internal/zzverif"
)

// ---- C03: route table lifecycle ----

type zzScenario struct {
	setup []zzOp
	alpha []zzOp
}

func zzRCl(p string) zzOp { return zzOp{k: 4, p: p} } // Resource(p).Clean()

var zzC03 = []zzScenario{
	{ // 0: six literal siblings + parameter sibling under "/" (first-byte index)
		setup: []zzOp{zzH("/a", "GET"), zzH("/b", "GET"), zzH("/c", "GET"), zzH("/d", "GET"), zzH("/e", "GET"), zzH("/f", "GET"), zzH("/{x}", "GET")},
		alpha: []zzOp{zzRm("/a"), zzRm("/f"), zzRm("/c", "GET"), zzRm("/{x}"), zzH("/a", "GET"), zzH("/g", "POST"), zzCl(), zzPCl("/"), zzPCl("/{x")},
	},
	{ // 1: five top-level routes not starting with '/', plus a top-level parameter
		setup: []zzOp{zzH("x1", "GET"), zzH("y2", "GET"), zzH("z3", "GET"), zzH("v4", "GET"), zzH("w5", "GET"), zzH("{q}", "POST")},
		alpha: []zzOp{zzRm("x1"), zzRm("w5"), zzCl(), zzH("u6", "GET"), zzRm("{q}"), zzPCl("x"), zzRCl("y2"), zzH("x1", "POST")},
	},
	{ // 2: parameters, several methods per pattern, shared prefixes
		setup: []zzOp{zzH("/u/{id}", "GET", "POST"), zzH("/u/{id}/p", "GET"), zzH("/u/me", "GET")},
		alpha: []zzOp{zzRm("/u/{id}", "GET"), zzRm("/u/{id}"), zzRm("/u/{id}/p"), zzRm("/u/me"), zzRCl("/u/{id}"), zzPCl("/u/"), zzH("/u/{id}", "DELETE"), zzRm("/u/{id}", "POST", "GET"), zzRm("/u/zz"), zzPCl("/u/{id}")},
	},
	{ // 3: interceptor / regexp / named competing at one position
		setup: []zzOp{zzH("/i/{n:digit}", "GET"), zzH("/i/{r:[a-c]+}", "GET"), zzH("/i/{s}", "GET"), zzH("/i/{n:digit}/x", "POST")},
		alpha: []zzOp{zzRm("/i/{n:digit}"), zzRm("/i/{r:[a-c]+}"), zzRm("/i/{s}"), zzRm("/i/{n:digit}/x"), zzH("/i/{n:digit}", "PUT"), zzPCl("/i/{n"), zzCl(), zzH("/i/{s}/x", "GET")},
	},
	{ // 4: an indexed parent (>= 5 children) with a handler-less branch whose leaves go away one by one (two-level pruning)
		setup: []zzOp{zzH("/m", "GET", "PUT"), zzH("/m/1", "GET"), zzH("/m/2", "GET"), zzH("/m/3", "GET"), zzH("/m/4", "GET"), zzH("/m/5", "GET"), zzH("/m/6a", "GET"), zzH("/m/6b", "POST"), zzH("/m/{id}", "GET")},
		alpha: []zzOp{zzRm("/m/6a"), zzRm("/m/6b"), zzRm("/m/1"), zzRm("/m/{id}"), zzPCl("/m/6"), zzPCl("/m/{id"), zzH("/m/6c", "GET"), zzRCl("/m/5"), zzRm("/m"), zzRCl("/m")},
	},
	{ // 5: a live route whose pattern is a proper prefix of a cleaned prefix and whose only descendants sit under it
		setup: []zzOp{zzH("/k", "GET"), zzH("/k/v/u", "GET"), zzH("/k/v/i/{id}", "POST"), zzH("/o", "GET")},
		alpha: []zzOp{zzPCl("/k/v"), zzPCl("/k/v/"), zzPCl("/k/"), zzRm("/k"), zzRm("/k", "PUT", "GET"), zzRm("/k/v/u"), zzPCl("/k/v/i"), zzRm("/k/v/i/{id}"), zzH("/k/v", "PUT")},
	},
	{ // 6: a cleaned prefix that is itself a route ending at a node boundary (literal and parameter)
		setup: []zzOp{zzH("/v", "GET"), zzH("/v/1", "GET"), zzH("/v/{z}", "POST"), zzH("/w/{k:\\d+}", "GET"), zzH("/w/{k:\\d+}/u", "GET")},
		alpha: []zzOp{zzPCl("/v"), zzPCl("/v/"), zzPCl("/w/{k:\\d+}"), zzRm("/v"), zzRCl("/v/1"), zzH("/v/2", "GET"), zzPCl("/w/{k:\\d+}/")},
	},
	{ // 7: one removal prunes two levels below an indexed parent; the pruned branch sits first / in the middle
		setup: []zzOp{zzH("/c/{id}", "GET"), zzH("/a", "GET"), zzH("/b", "GET"), zzH("/g/h/{i}", "PUT"), zzH("/d", "GET"), zzH("/e", "GET")},
		alpha: []zzOp{zzRm("/c/{id}"), zzRm("/g/h/{i}"), zzRm("/a"), zzH("/c/x", "GET"), zzPCl("/g"), zzRCl("/c/{id}"), zzH("/f", "POST")},
	},
	{ // 8: literal siblings one of which starts with a non-ASCII byte; the index threshold is crossed upwards
		setup: []zzOp{zzH("/t/a", "GET"), zzH("/t/b", "GET"), zzH("/t/\u4e2d", "GET"), zzH("/t/c", "GET")},
		alpha: []zzOp{zzH("/t/d", "GET"), zzH("/t/{n}", "POST"), zzRm("/t/a"), zzH("/t/\u00e4", "GET"), zzRm("/t/\u4e2d"), zzH("/t/e", "PUT")},
	},
	{ // 9: a route that lost its handlers but stayed as an inner node; its last descendant goes (both are pruned), then it comes back
		setup: []zzOp{zzH("/q", "GET"), zzH("/q/{id}", "GET"), zzH("/o", "GET"), zzRm("/q")},
		alpha: []zzOp{zzRm("/q/{id}"), zzH("/q", "POST"), zzH("/q/{id}", "PUT"), zzRm("/q/{id}", "GET"), zzPCl("/q/"), zzH("/q/x", "GET")},
	},
}

// zzApply applies op to router and model; returns false when the op would be a
// (correctly) rejected duplicate registration, which lifecycle histories skip.
func zzApply(r *Router[*hnd], m *zzModel, op zzOp, id int) bool {
	switch op.k {
	case 0:
		for _, x := range op.ms {
			if m.handlerID(op.p, x) != 0 {
				return false
			}
		}
		r.Handle(op.p, &hnd{id: id}, nil, op.ms...)
		m.add(op.p, id, op.ms...)
	case 1:
		want := append([]string{}, op.ms...)
		r.Remove(op.p, op.ms...)
		// the list belongs to the caller, who may pass it again: Remove must not have written to it
		for i := range want {
			zzv.Assert(op.ms[i] == want[i], "Remove-wrote-to-the-caller's-method-list")
		}
		m.remove(op.p, want...)
	case 2:
		r.Clean()
		m.clean("")
	case 3:
		r.Prefix(op.p).Clean()
		m.clean(op.p)
	case 4:
		r.Resource(op.p).Clean()
		m.remove(op.p)
	}
	return true
}

// affected: does op (a removal) concern the route/method of a previous outcome?
func zzAffected(op zzOp, pattern string) bool {
	switch op.k {
	case 1, 4:
		return op.p == pattern
	case 2:
		return true
	case 3:
		return len(pattern) >= len(op.p) && pattern[:len(op.p)] == op.p
	}
	return false
}

var zzProbeMethods = []string{"GET", "POST", "OPTIONS", "HEAD", "DELETE"}

// ZZC03(n): n = scenario*100 + depth*10 + maxLen.
func ZZC03(n int) {
	sc := zzC03[n/100]
	depth := n / 10 % 10
	maxLen := n % 10
	r := zzNewRouter("r")
	m := &zzModel{}
	id := 0
	for _, op := range sc.setup {
		id++
		zzApply(r, m, op, id)
	}
	var last zzOp
	var path, method string
	var before *zzObs
	for i := 0; i < depth; i++ {
		op := sc.alpha[zzv.Choice("op", len(sc.alpha))]
		if i == depth-1 {
			// the same symbolic request before and after the last step
			path = zzv.Bytes("p", maxLen)
			method = zzProbeMethods[zzv.Choice("m", len(zzProbeMethods))]
			zzv.Assume(path != "" && path != "*")
			before, _ = zzServe(r, zzReq(method, path))
			last = op
		}
		zzCheckRoutes("routes-mid", r, m, false) // observers run before every step too: whatever they cache must not outlive it

		id++
		if !zzApply(r, m, op, id) {
			zzv.Assume(false)
		}
	}
	zzv.Cover("history")

	// 1. Routes() lists exactly the live patterns with exactly their live methods
	zzCheckRoutes("routes", r, m, false)

	// 2. every live route serves its witness requests; removed pairs are gone
	for _, rt := range m.routes {
		wp := zzWitness(rt.p)
		for _, pm := range zzProbeMethods {
			o, _ := zzServe(r, zzReq(pm, wp))
			zzv.Assert(o.calls == 1, "witness:called-once")
			zzExpectDispatch("witness", m, wp, pm, o)
		}
	}
	// patterns of the scenario that are not live must not be served
	for _, op := range append(append([]zzOp{}, sc.setup...), sc.alpha...) {
		if op.k != 0 || m.find(op.p) >= 0 {
			continue
		}
		wp := zzWitness(op.p)
		zzCheckStrictURL("removed", r, op.p, false)
		o, _ := zzServe(r, zzReq("GET", wp))
		zzv.Assert(!o.node || o.pattern != op.p, "removed-pattern-still-served")
		zzExpectDispatch("removed", m, wp, "GET", o)
	}

	// 3. the symbolic request after the step: conformance, and non-interference
	after, _ := zzServe(r, zzReq(method, path))
	zzv.Assert(after.calls == 1, "probe:called-once")
	zzv.Obs("after-id", after.id)
	zzExpectDispatch("probe", m, path, method, after)
	if last.k != 0 && before.node && !zzAffected(last, before.pattern) {
		zzv.Cover("non-interference-checked")
		zzv.Assert(after.node && after.pattern == before.pattern && after.id == before.id, "removal-changed-an-unrelated-request")
		zzv.Assert(after.params.equal(before.params), "removal-changed-params-of-an-unrelated-request")
	}
}
