//go:build verif

package trace

import (
	"html"
	"io"
	"net/http"
	"net/http/httputil"
	"net/url"
	"strings"

	zzv "github.com/issue9/mux/v9/internal/zzverif"
)

type zzW struct {
	h       http.Header
	status  int
	sent    bool
	sentHdr http.Header
	body    []byte
}

func (w *zzW) Header() http.Header { return w.h }
func (w *zzW) WriteHeader(s int) {
	if !w.sent {
		w.sent, w.status, w.sentHdr = true, s, w.h.Clone()
	}
}
func (w *zzW) Write(b []byte) (int, error) {
	if !w.sent {
		w.WriteHeader(200)
	}
	w.body = append(w.body, b...)
	return len(b), nil
}

// ZZC18Helper(n): the bundled Trace helper on a request whose dump is arbitrary.
func ZZC18Helper(n int) {
	withBody := n >= 1
	// the request carries all five HTML metacharacters, or an apostrophe only, or a quote only
	// (or no metacharacter but a NUL byte, which html.EscapeString leaves alone)
	hv := []string{"<&>\"'", "o'neil", "say \"hi\"", "n\x00l"}[zzv.Choice("header", 4)]
	r := &http.Request{Method: "TRACE", URL: &url.URL{Path: "/t"}, Header: http.Header{"X-A": {hv}}, Host: "h", Proto: "HTTP/1.1", ProtoMajor: 1, ProtoMinor: 1}
	if n >= 1 {
		// a body whose length is not declared (chunked / streamed)
		r.Body = io.NopCloser(strings.NewReader("B<o>dy"))
		r.ContentLength = -1
	}
	if n == 2 {
		r.ContentLength = 6
	}
	want, werr := httputil.DumpRequest(r, withBody)
	w := &zzW{h: http.Header{}}
	err := Trace(w, r, withBody)
	zzv.Obs("err", err != nil)
	if werr != nil {
		zzv.Cover("dump-error")
		zzv.Assert(err != nil, "trace-helper:dump-error-not-passed-through")
		zzv.Assert(!w.sent, "trace-helper:response-started-despite-the-dump-error")
		return
	}
	zzv.Cover("dump-ok")
	zzv.Assert(err == nil, "trace-helper:error-without-a-dump-error")
	zzv.Assert(w.sent && w.status == 200, "trace-helper:status-is-not-200")
	ct := ""
	if v := w.sentHdr["Content-Type"]; len(v) > 0 {
		ct = v[0]
	}
	zzv.Obs("content-type-sent", ct)
	zzv.Assert(ct == "message/http", "trace-helper:content-type-message/http-not-sent-with-the-response")
	zzv.Assert(string(w.body) == html.EscapeString(string(want)), "trace-helper:body-is-not-the-escaped-dump")
}
