//go:build verif

package types

import (
	"strconv"

	zzv "github.com/issue9/mux/v9/internal/zzverif"
)

// ---- C20: Params accessors ----

type zzKV struct{ k, v string }

func zzShadowGet(sh []zzKV, k string) (string, bool) {
	for _, e := range sh {
		if e.k == k {
			return e.v, true
		}
	}
	return "", false
}

func zzShadowSet(sh []zzKV, k, v string) []zzKV {
	for i := range sh {
		if sh[i].k == k {
			sh[i].v = v
			return sh
		}
	}
	return append(sh, zzKV{k, v})
}

func zzShadowDel(sh []zzKV, k string) []zzKV {
	for i := range sh {
		if sh[i].k == k {
			return append(sh[:i:i], sh[i+1:]...)
		}
	}
	return sh
}

var zzFloatSeeds = []string{"0", "-1", "+7", "1e3", "NaN", "Inf", "-Inf", "", " 1", "1.5", "0x1p-2", "1_0", "1e400", ".5", "5.", "١"}
var zzIntSeeds = []string{"9223372036854775807", "9223372036854775808", "-9223372036854775808", "-9223372036854775809", "18446744073709551615", "18446744073709551616", "+0", "-0", "0x10", "1_000", "00012"}

// ZZC20(n): n = number of operations*10 + max value length. Keys are drawn from {"a","b",<= 1 arbitrary byte}.
func ZZC20(n int) {
	ctx := NewContext()
	var sh []zzKV
	key := func() string {
		switch zzv.Choice("key", 3) {
		case 0:
			return "a"
		case 1:
			return "b"
		}
		return zzv.Bytes("k", 1)
	}
	for i := 0; i < n/10; i++ {
		switch zzv.Choice("op", 6) {
		case 0:
			k, v := key(), zzv.Bytes("v", n%10)
			ctx.Set(k, v)
			sh = zzShadowSet(sh, k, v)
		case 1:
			k := key()
			ctx.Delete(k)
			sh = zzShadowDel(sh, k)
		case 2:
			ctx.Reset()
			sh = nil
		case 3: // back to the pool and out again: starts empty whatever it held
			ctx.Path = "/left/over"
			ctx.SetRouterName("rn")
			ctx.Destroy()
			ctx = NewContext()
			sh = nil
			zzv.Cover("pool-reuse")
			zzv.Assert(ctx.Count() == 0 && ctx.Path == "" && ctx.RouterName() == "" && ctx.Node() == nil, "pooled-context-does-not-start-empty")
		case 4:
			k := key()
			ctx.Params().Set(k, "z")
			sh = zzShadowSet(sh, k, "z")
		case 5: // the old holder writes to the context after releasing it; the next holder must still start empty
			old := ctx
			ctx.Destroy()
			old.Set("stale", "1")
			old.Path = "/stale"
			ctx = NewContext()
			sh = nil
			zzv.Cover("pool-reuse-after-late-write")
			zzv.Assert(ctx.Count() == 0 && ctx.Path == "", "pooled-context-does-not-start-empty")
		}
		// the accessors are used between the steps too: whatever they cache must not outlive the next step
		for _, k := range []string{"a", "b"} {
			want, has := zzShadowGet(sh, k)
			got, ok := ctx.Get(k)
			zzv.Assert(ok == has && got == want, "Get-between-steps-disagrees-with-what-was-set")
			zzv.Assert(ctx.Exists(k) == has && ctx.Count() == len(sh), "Exists-or-Count-between-steps-disagrees-with-what-was-set")
		}
	}
	zzv.Cover("sequence")
	// Count / Get / Exists / String / MustString / Range against the shadow
	zzv.Assert(ctx.Count() == len(sh), "Count-disagrees-with-what-was-set")
	seen := 0
	ctx.Range(func(k, v string) {
		seen++
		x, ok := zzShadowGet(sh, k)
		zzv.Assert(ok && x == v, "Range-yields-a-pair-that-was-not-set")
	})
	zzv.Assert(seen == len(sh), "Range-does-not-visit-every-parameter-once")
	probe := key()
	want, has := zzShadowGet(sh, probe)
	got, ok := ctx.Get(probe)
	zzv.Assert(ok == has && got == want, "Get-disagrees-with-what-was-set")
	zzv.Assert(ctx.Exists(probe) == has, "Exists-disagrees-with-Get")
	s, err := ctx.String(probe)
	zzv.Assert((err == nil) == has && s == want, "String-disagrees-with-Get")
	if !has {
		zzv.Cover("absent-key")
		zzv.Assert(err == ErrParamNotExists(), "String-error-is-not-the-not-exists-error")
		zzv.Assert(ctx.MustString(probe, "dflt") == "dflt", "MustString-default")
		_, e1 := ctx.Int(probe)
		_, e2 := ctx.Uint(probe)
		_, e3 := ctx.Bool(probe)
		_, e4 := ctx.Float(probe)
		zzv.Assert(e1 == ErrParamNotExists() && e2 == ErrParamNotExists() && e3 == ErrParamNotExists() && e4 == ErrParamNotExists(), "typed-accessor-error-for-an-absent-key-is-not-the-not-exists-error")
		zzv.Assert(ctx.MustInt(probe, -7) == -7 && ctx.MustUint(probe, 7) == 7 && ctx.MustBool(probe, true) && ctx.MustFloat(probe, 1.5) == 1.5, "Must-accessor-default-for-an-absent-key")
		return
	}
	zzv.Cover("present-key")
	zzv.Assert(ctx.MustString(probe, "dflt") == want, "MustString-value")
}

// ZZC20Conv(n): the typed accessors against strconv on a captured value: every string of <= n bytes, plus edge-case seeds.
func ZZC20Conv(n int) {
	ctx := NewContext()
	var v string
	switch c := zzv.Choice("src", 3); c {
	case 0:
		v = zzv.Bytes("v", n)
	case 1:
		v = zzIntSeeds[zzv.Choice("iseed", len(zzIntSeeds))]
	default:
		v = zzFloatSeeds[zzv.Choice("fseed", len(zzFloatSeeds))]
	}
	ctx.Set("k", v)
	zzv.Cover("conversion")

	wi, ei := strconv.ParseInt(v, 10, 64)
	gi, gei := ctx.Int("k")
	zzv.Assert((ei == nil) == (gei == nil) && gi == wi, "Int-differs-from-strconv.ParseInt")
	if ei == nil {
		zzv.Cover("int-ok")
		zzv.Assert(ctx.MustInt("k", -7) == wi, "MustInt-differs-from-Int")
	} else {
		zzv.Assert(ctx.MustInt("k", -7) == -7, "MustInt-does-not-return-the-default-when-Int-fails")
	}

	wu, eu := strconv.ParseUint(v, 10, 64)
	gu, geu := ctx.Uint("k")
	zzv.Assert((eu == nil) == (geu == nil) && gu == wu, "Uint-differs-from-strconv.ParseUint")
	if eu == nil {
		zzv.Assert(ctx.MustUint("k", 7) == wu, "MustUint-differs-from-Uint")
	} else {
		zzv.Assert(ctx.MustUint("k", 7) == 7, "MustUint-does-not-return-the-default-when-Uint-fails")
	}

	wb, eb := strconv.ParseBool(v)
	gb, geb := ctx.Bool("k")
	zzv.Assert((eb == nil) == (geb == nil) && gb == wb, "Bool-differs-from-strconv.ParseBool")
	if eb == nil {
		zzv.Cover("bool-ok")
		zzv.Assert(ctx.MustBool("k", !wb) == wb, "MustBool-differs-from-Bool")
	} else {
		zzv.Assert(ctx.MustBool("k", true) && !ctx.MustBool("k", false), "MustBool-does-not-return-the-default-when-Bool-fails")
	}
}

// ZZC20Float(n): Float / MustFloat against strconv.ParseFloat on the seed tables (floats are compared bitwise by the harness).
func ZZC20Float(n int) {
	ctx := NewContext()
	all := append(append([]string{}, zzFloatSeeds...), zzIntSeeds...)
	v := all[zzv.Choice("seed", len(all))]
	ctx.Set("k", v)
	zzv.Cover("float")
	wf, ef := strconv.ParseFloat(v, 64)
	gf, gef := ctx.Float("k")
	zzv.Assert((ef == nil) == (gef == nil), "Float-error-differs-from-strconv.ParseFloat")
	zzv.Assert(gf == wf || (gf != gf && wf != wf), "Float-differs-from-strconv.ParseFloat")
	if ef == nil {
		m := ctx.MustFloat("k", 2.5)
		zzv.Assert(m == wf || (m != m && wf != wf), "MustFloat-differs-from-Float")
	} else {
		zzv.Assert(ctx.MustFloat("k", 2.5) == 2.5, "MustFloat-does-not-return-the-default-when-Float-fails")
	}
}
