//go:build verif

package types

import (
	"strings"
	"sync"
	"sync/atomic"

	zzv "github.com/issue9/mux/v9/internal/zzverif"
)

var zzCounter atomic.Int64
var zzPlain int32
var zzMu sync.Mutex
var zzOnce sync.Once
var zzPtr atomic.Pointer[string]

func ZZSelfAtomic(n int) {
	zzCounter.Store(0)
	atomic.StoreInt32(&zzPlain, 0)
	zzOnce = sync.Once{}
	zzv.Par(func() { zzCounter.Add(2) }, func() { zzCounter.Add(3); atomic.AddInt32(&zzPlain, 1) })
	zzv.Assert(zzCounter.Load() == 5, "atomic-add")
	zzv.Assert(atomic.LoadInt32(&zzPlain) == 1, "atomic-plain")
	k := 0
	zzOnce.Do(func() { k++ })
	zzOnce.Do(func() { k++ })
	zzv.Assert(k == 1, "once")
	s := "x"
	zzPtr.Store(&s)
	zzv.Assert(*zzPtr.Load() == "x", "pointer")
	zzMu.Lock()
	zzMu.Unlock()
	b := zzv.Bytes("b", 2)
	for i := 0; i < len(b); i++ {
		zzv.Assume(b[i] < 0x80)
	}
	zzv.Assert(strings.ToLower(strings.ToUpper(b)) == strings.ToLower(b), "upper-lower")
	zzv.Cover("self")
}
