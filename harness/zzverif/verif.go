//go:build verif

// Package zzverif is the harness API. Under the symbolic executor every
// function here is intercepted by name (the bodies are never interpreted);
// compiled natively, the bodies replay one recorded set of nondet values, so a
// solver model becomes an ordinary Go test run against the real build.
package zzverif

import (
	"encoding/json"
	"fmt"
	"os"
	"runtime"
	"sync"
	"testing"
)

type ndValue struct {
	Kind  string `json:"kind"`
	Name  string `json:"name"`
	N     int    `json:"n"`
	Bytes []int  `json:"bytes"`
	Int   int64  `json:"int"`
	Bool  bool   `json:"bool"`
}

type replayCase struct {
	Entry  string    `json:"entry"`
	Arg    int       `json:"arg"`
	Values []ndValue `json:"values"`
}

type replayResult struct {
	Failed  []string `json:"failed"`
	Obs     []string `json:"obs"`
	Covers  []string `json:"covers"`
	Panic   string   `json:"panic"`
	Runtime bool     `json:"runtime"`
	Desync  string   `json:"desync"`
}

type stopReplay struct{}

var (
	mu    sync.Mutex
	queue []ndValue
	cur   *replayResult
	ufTab map[string]bool // interpretation of the uninterpreted predicates taken from the solver's model
)

// UFPred is an arbitrary (but fixed) predicate on strings: under the symbolic executor an
// uninterpreted function, so that a verdict holds for every pure predicate; natively it
// answers as the solver's model did.
func UFPred(name, s string) bool {
	mu.Lock()
	defer mu.Unlock()
	return ufTab[name+"\x00"+s]
}

func pop(kind, name string) (ndValue, bool) {
	mu.Lock()
	defer mu.Unlock()
	// engine-only entries (stubs that are real functions natively) are skipped
	for len(queue) > 0 && (queue[0].Name == "dump" || queue[0].Name == "dump_err") {
		queue = queue[1:]
	}
	if len(queue) == 0 {
		if cur != nil && cur.Desync == "" {
			cur.Desync = "log exhausted at " + kind + " " + name
		}
		return ndValue{}, false
	}
	v := queue[0]
	queue = queue[1:]
	if v.Kind != kind || v.Name != name {
		if cur != nil && cur.Desync == "" {
			cur.Desync = fmt.Sprintf("expected %s %s, log has %s %s", kind, name, v.Kind, v.Name)
		}
	}
	return v, true
}

// Bytes returns an arbitrary string of length 0..max.
func Bytes(name string, max int) string {
	v, _ := pop("bytes", name)
	b := make([]byte, len(v.Bytes))
	for i, x := range v.Bytes {
		b[i] = byte(x)
	}
	return string(b)
}

// Choice returns an arbitrary int in [0,n).
func Choice(name string, n int) int { v, _ := pop("choice", name); return v.N }

// Int returns an arbitrary int.
func Int(name string) int { v, _ := pop("int", name); return int(v.Int) }

// Bool returns an arbitrary bool.
func Bool(name string) bool { v, _ := pop("bool", name); return v.Bool }

// Blob returns a []byte of length n whose content is irrelevant.
func Blob(n int) []byte { return make([]byte, n) }

// Assert states the property.
func Assert(cond bool, label string) {
	if !cond {
		mu.Lock()
		if cur != nil {
			cur.Failed = append(cur.Failed, label)
		}
		mu.Unlock()
		panic(stopReplay{})
	}
}

// Assume states a bound or precondition.
func Assume(cond bool) {
	if !cond {
		mu.Lock()
		if cur != nil {
			cur.Failed = append(cur.Failed, "ASSUME-VIOLATED-BY-REPLAY")
		}
		mu.Unlock()
		panic(stopReplay{})
	}
}

// Cover marks a reachability witness.
func Cover(label string) {
	mu.Lock()
	if cur != nil {
		cur.Covers = append(cur.Covers, label)
	}
	mu.Unlock()
}

// Obs records an observation (compared between the executor and the native run).
func Obs(label string, v any) {
	var s string
	switch x := v.(type) {
	case string:
		s = fmt.Sprintf("%q", x)
	case int:
		s = fmt.Sprint(x)
	case int64:
		s = fmt.Sprint(x)
	case bool:
		s = fmt.Sprint(x)
	default:
		s = fmt.Sprintf("<%T>", v)
	}
	mu.Lock()
	if cur != nil {
		cur.Obs = append(cur.Obs, label+"="+s)
	}
	mu.Unlock()
}

// IsSymbolic reports whether s has bytes that are symbolic under the executor (natively: never).
func IsSymbolic(s string) bool { return false }

// IsRuntime reports whether a recovered panic value is a runtime fault.
func IsRuntime(r any) bool { _, ok := r.(runtime.Error); return ok }

// Par runs the functions as concurrent goroutines and waits for them.
func Par(fs ...func()) {
	var wg sync.WaitGroup
	for _, f := range fs {
		wg.Add(1)
		go func() { defer wg.Done(); f() }()
	}
	wg.Wait()
}

// RunReplay is called by the generated Test_verif_replay in each harness package.
func RunReplay(t *testing.T, entries map[string]func(int)) {
	file := os.Getenv("VERIF_REPLAY")
	if file == "" {
		t.Skip("VERIF_REPLAY not set")
	}
	data, err := os.ReadFile(file)
	if err != nil {
		t.Fatal(err)
	}
	var cases []replayCase
	if err := json.Unmarshal(data, &cases); err != nil {
		t.Fatal(err)
	}
	results := make([]replayResult, len(cases))
	for i, c := range cases {
		f := entries[c.Entry]
		if f == nil {
			results[i].Desync = "no entry " + c.Entry
			continue
		}
		res := &results[i]
		mu.Lock()
		queue = nil
		ufTab = map[string]bool{}
		for _, v := range c.Values {
			if v.Kind == "uf" {
				b := make([]byte, len(v.Bytes))
				for i, x := range v.Bytes {
					b[i] = byte(x)
				}
				ufTab[v.Name+"\x00"+string(b)] = v.Bool
			} else {
				queue = append(queue, v)
			}
		}
		cur = res
		mu.Unlock()
		func() {
			defer func() {
				if r := recover(); r != nil {
					if _, ok := r.(stopReplay); ok {
						return
					}
					res.Panic = fmt.Sprint(r)
					res.Runtime = IsRuntime(r)
				}
			}()
			f(c.Arg)
		}()
		mu.Lock()
		cur = nil
		mu.Unlock()
	}
	out, _ := json.Marshal(results)
	if of := os.Getenv("VERIF_REPLAY_OUT"); of != "" {
		if err := os.WriteFile(of, out, 0o644); err != nil {
			t.Fatal(err)
		}
	}
}
