package main

import (
	"fmt"
	"go/types"
	"os"
	"regexp"
	"runtime/debug"
	"sort"
	"strings"
	"sync"
	"time"

	"golang.org/x/tools/go/ssa"
)

// NDValue is one concrete nondet value in a replay file.
type NDValue struct {
	Kind  string `json:"kind"`
	Name  string `json:"name"`
	N     int    `json:"n,omitempty"`     // choice
	Bytes []int  `json:"bytes,omitempty"` // bytes
	Int   int64  `json:"int,omitempty"`
	Bool  bool   `json:"bool,omitempty"`
}

type Violation struct {
	Label   string       `json:"label"`
	Site    string       `json:"site"`
	Entry   string       `json:"entry"`
	Arg     int          `json:"arg"`
	Values  []NDValue    `json:"values"`
	Trail   []int        `json:"-"`
	Count   int          `json:"count"`
	Note    string       `json:"note,omitempty"`
	Script  string       `json:"-"`
	Threads bool         `json:"threads,omitempty"`
	Alt     []*Violation `json:"-"` // further witnesses of the same assertion with other discrete choices
	sig     string
}

// choiceSig: the discrete (Choice) part of a nondet log.
func choiceSig(log []ndEntry) string {
	s := ""
	for _, e := range log {
		if e.Kind == "choice" && !strings.HasPrefix(e.Name, "dump") {
			s += fmt.Sprintf("%s=%d,", e.Name, e.N)
		}
	}
	return s
}

// Leaf is a sampled completed path with a witness input (for native validation).
type Leaf struct {
	Entry  string    `json:"entry"`
	Arg    int       `json:"arg"`
	Values []NDValue `json:"values"`
	Obs    []string  `json:"obs"`
	Covers []string  `json:"covers"`
	PCLen  int       `json:"pc_len"`
}

type RunStats struct {
	Entry        string
	Arg          int
	Paths        int
	Forks        int
	Steps        int
	Decisions    int
	Asserts      int
	FilterHits   int
	Aborted      map[string]int
	EngineErrs   map[string]int
	Unknowns     map[string]int
	Assumed      map[string]int
	Cover        map[string]int
	Violations   []*Violation
	Leaves       []Leaf
	FnSteps      map[string]int
	FnBranches   map[string]int
	Solver       SolverStats
	Wall         time.Duration
	Truncated    bool
	Scripts      []string // sample of discharged assertion queries (standalone SMT-LIB2) with expected answers
	ScriptAnswer []string
}

type SolverStats struct {
	Queries, Sat, Unsat, Unknown, Errors int
	Time                                 time.Duration
}

type Explorer struct {
	prog        *ssa.Program
	repoPkgs    []*ssa.Package
	repoGlobals []*ssa.Global
	depGlobals  map[string]*Value
	trace       bool
	mapReverse  bool
	workers     int
	maxPaths    int
	leafSample  int // keep a witness for 1 in leafSample leaves
	maxLeaves   int
	deadline    time.Time
	initSteps   int
	initState   map[*ssa.Global]*Value // globals after the repository's package initialisers (nil: run them on every path)

	mu      sync.Mutex
	cond    *sync.Cond
	work    [][]int
	active  int
	stop    bool
	stats   *RunStats
	vioKeys map[string]*Violation
	leafCtr int
}

func (ex *Explorer) push(p []int) {
	ex.mu.Lock()
	ex.work = append(ex.work, p)
	ex.mu.Unlock()
	ex.cond.Signal()
}

func (ex *Explorer) noteUnknown(kind string) {
	ex.mu.Lock()
	ex.stats.Unknowns[kind]++
	ex.mu.Unlock()
}

func (ex *Explorer) noteAssumed(what string) {
	ex.mu.Lock()
	if ex.stats.Assumed == nil {
		ex.stats.Assumed = map[string]int{}
	}
	ex.stats.Assumed[what]++
	ex.mu.Unlock()
}

func (ex *Explorer) noteAssert() {
	ex.mu.Lock()
	ex.stats.Asserts++
	ex.mu.Unlock()
}

// pop blocks until work is available or all workers are idle.
func (ex *Explorer) pop() ([]int, bool) {
	ex.mu.Lock()
	defer ex.mu.Unlock()
	for {
		if ex.stop {
			return nil, false
		}
		if n := len(ex.work); n > 0 {
			p := ex.work[n-1]
			ex.work = ex.work[:n-1]
			ex.active++
			return p, true
		}
		if ex.active == 0 {
			ex.cond.Broadcast()
			return nil, false
		}
		ex.cond.Wait()
	}
}

func (ex *Explorer) done() {
	ex.mu.Lock()
	ex.active--
	if ex.active == 0 && len(ex.work) == 0 {
		ex.cond.Broadcast()
	}
	ex.mu.Unlock()
}

// concretise the nondet log under a model.
func concretise(log []ndEntry, model map[string]uint64) []NDValue {
	out := make([]NDValue, 0, len(log))
	for _, e := range log {
		v := NDValue{Kind: e.Kind, Name: e.Name}
		switch e.Kind {
		case "choice":
			v.N = e.N
		case "bytes":
			v.Bytes = make([]int, e.N)
			for i, t := range e.Terms {
				v.Bytes[i] = int(model[t.Name] & 0xff)
			}
		case "int":
			v.Int = int64(model[e.Terms[0].Name])
		case "bool":
			v.Bool = model[e.Terms[0].Name] != 0
		}
		out = append(out, v)
	}
	return out
}

func showValue(v Value, model map[string]uint64) string {
	switch x := v.(type) {
	case Str:
		bs := []byte(x.S)
		for i := range bs {
			if x.Sym != nil && x.Sym[i] != nil {
				r, ok := x.Sym[i].eval(model)
				if !ok {
					return "<unevaluable>"
				}
				bs[i] = byte(r)
			}
		}
		return fmt.Sprintf("%q", string(bs))
	case Int:
		if x.T != nil {
			r, ok := x.T.eval(model)
			if !ok {
				return "<unevaluable>"
			}
			return fmt.Sprint(sx(r, x.T.W))
		}
		return fmt.Sprint(int64(x.V))
	case Bool:
		if x.T != nil {
			r, ok := x.T.eval(model)
			if !ok {
				return "<unevaluable>"
			}
			return fmt.Sprint(r != 0)
		}
		return fmt.Sprint(x.B)
	}
	return fmt.Sprintf("<%T>", v)
}

// allVars: the terms whose model values a counterexample needs (nondet variables and
// the applications of uninterpreted predicates made on this path).
func (m *Machine) allVars() []*Term {
	if len(m.ufApps) == 0 {
		return m.vars
	}
	out := append([]*Term{}, m.vars...)
	for _, u := range m.ufApps {
		out = append(out, u.t)
	}
	return out
}

// ufTable renders the model's interpretation of the uninterpreted predicates on the
// arguments they were applied to.
func (m *Machine) ufTable(model map[string]uint64) []NDValue {
	var out []NDValue
	seen := map[string]bool{}
	for _, u := range m.ufApps {
		bs := make([]int, len(u.arg.S))
		key := u.name + ":"
		for i := range bs {
			if u.arg.Sym != nil && u.arg.Sym[i] != nil {
				v, _ := u.arg.Sym[i].eval(model)
				bs[i] = int(v & 0xff)
			} else {
				bs[i] = int(u.arg.S[i])
			}
			key += string(rune(bs[i])) + ","
		}
		if seen[key] {
			continue
		}
		seen[key] = true
		out = append(out, NDValue{Kind: "uf", Name: u.name, Bytes: bs, Bool: model[u.t.str] != 0})
	}
	return out
}

// violate asks the solver for pc ∧ extra; sat => a violation with a concrete witness.
func (m *Machine) violate(label, site string, extra *Term) {
	conj := append([]*Term{}, m.pc...)
	if extra != nil {
		conj = append(conj, extra)
	}
	ex := m.ex
	var r satResult
	var model map[string]uint64
	if len(conj) == 0 {
		r, model = resSat, map[string]uint64{}
	} else if extra != nil {
		r, model = m.solver.Sat(m.pc, m.allVars(), extra)
	} else {
		r, model = m.solver.Sat(m.pc, m.allVars())
	}
	if extra != nil {
		ex.mu.Lock()
		if len(ex.stats.Scripts) < 40 && (ex.stats.Asserts%7 == 0 || r == resSat) {
			ex.stats.Scripts = append(ex.stats.Scripts, Script(conj))
			ex.stats.ScriptAnswer = append(ex.stats.ScriptAnswer, r.String())
		}
		ex.mu.Unlock()
	}
	if r == resUnknown {
		ex.noteUnknown("assertion " + label)
		return
	}
	if r == resUnsat {
		return
	}
	// counterexamples must not rest on an answer of the uninterpreted regexp.Compile that the real
	// function does not give: refine with the real answers on the model's strings (a few rounds)
	for round := 0; round < 6 && !m.reCompilesRealistic(model); round++ {
		var axioms []*Term
		for _, rc := range m.reCompiles {
			bs := []byte(rc.s.S)
			var eqs []*Term
			for i := range bs {
				if rc.s.Sym != nil && rc.s.Sym[i] != nil {
					v, _ := rc.s.Sym[i].eval(model)
					bs[i] = byte(v)
					eqs = append(eqs, tEq(rc.s.Sym[i], bvConst(v, 8)))
				}
			}
			_, err := regexp.Compile(string(bs))
			if (err == nil) != rc.ok {
				axioms = append(axioms, tNot(tAnd(eqs...))) // these bytes with this answer are impossible
			}
		}
		ex2 := append([]*Term{}, axioms...)
		if extra != nil {
			ex2 = append(ex2, extra)
		}
		m.refine = append(m.refine, axioms...)
		r, model = m.solver.Sat(m.pc, m.allVars(), append(ex2, m.refine...)...)
		if r != resSat {
			return // no realistic counterexample found within the refinement budget: not reported
		}
	}
	if !m.reCompilesRealistic(model) {
		return
	}
	key := label + " @ " + site
	ex.mu.Lock()
	defer ex.mu.Unlock()
	if v, ok := ex.vioKeys[key]; ok {
		v.Count++
		// keep a few more witnesses whose discrete choices differ: a failing input of one
		// configuration may be masked natively (e.g. by a stubbed library function) while
		// another configuration reproduces
		if len(v.Alt) < 3 {
			sig := choiceSig(m.ndlog)
			fresh := sig != v.sig
			for _, a := range v.Alt {
				if a.sig == sig {
					fresh = false
				}
			}
			if fresh {
				v.Alt = append(v.Alt, &Violation{Label: label, Site: site, Entry: v.Entry, Arg: v.Arg,
					Values: append(concretise(m.ndlog, model), m.ufTable(model)...), Count: 1, Threads: m.par != nil, sig: sig})
			}
		}
		return
	}
	v := &Violation{Label: label, Site: site, Entry: ex.stats.Entry, Arg: ex.stats.Arg,
		Values: append(concretise(m.ndlog, model), m.ufTable(model)...), Trail: append([]int{}, m.trail...), Count: 1, Threads: m.par != nil, sig: choiceSig(m.ndlog)}
	ex.vioKeys[key] = v
	ex.stats.Violations = append(ex.stats.Violations, v)
}

// run explores one harness entry with one int argument to completion (or budget).
func (ex *Explorer) run(pkg *ssa.Package, entry string, arg int) *RunStats {
	t0 := time.Now()
	harness := pkg.Func(entry)
	if harness == nil {
		panic(engineErr{"no harness function " + entry + " in " + pkg.Pkg.Path()})
	}
	st := &RunStats{Entry: entry, Arg: arg, Aborted: map[string]int{}, EngineErrs: map[string]int{}, Unknowns: map[string]int{},
		Cover: map[string]int{}, FnSteps: map[string]int{}, FnBranches: map[string]int{}}
	ex.stats = st
	ex.vioKeys = map[string]*Violation{}
	ex.work = [][]int{{}}
	ex.active = 0
	ex.stop = false
	ex.leafCtr = 0
	var wg sync.WaitGroup
	machines := make([]*Machine, ex.workers)
	for w := 0; w < ex.workers; w++ {
		m := &Machine{ex: ex, prog: ex.prog, solver: NewSolver("z3"), fnSteps: map[*ssa.Function]int{}, fnBranches: map[*ssa.Function]int{}}
		machines[w] = m
		wg.Add(1)
		go func() {
			defer wg.Done()
			for {
				prefix, ok := ex.pop()
				if !ok {
					return
				}
				m.runPath(harness, prefix, arg)
				ex.done()
			}
		}()
	}
	wg.Wait()
	for _, m := range machines {
		st.Forks += m.forks
		st.FilterHits += m.filterHits
		st.Solver.Queries += m.solver.Queries
		st.Solver.Sat += m.solver.NSat
		st.Solver.Unsat += m.solver.NUnsat
		st.Solver.Unknown += m.solver.NUnknown
		st.Solver.Errors += m.solver.Errors
		st.Solver.Time += m.solver.Time
		for fn, n := range m.fnSteps {
			st.FnSteps[fnName(fn)] += n
		}
		for fn, n := range m.fnBranches {
			st.FnBranches[fnName(fn)] += n
		}
		m.solver.Close()
	}
	st.Wall = time.Since(t0)
	return st
}

func (m *Machine) runPath(harness *ssa.Function, prefix []int, arg int) {
	ex := m.ex
	m.resetPath(prefix)
	outcome := "ok"
	var errMsg string
	func() {
		defer func() {
			r := recover()
			switch x := r.(type) {
			case nil:
			case abortPath:
				outcome = "abort:" + x.why
			case engineErr:
				outcome = "engine"
				errMsg = x.msg
			case goPanic:
				msg := "value"
				if i, ok := x.v.(Iface); ok {
					if s, ok := i.V.(Str); ok {
						msg = s.show()
					} else if i.T != nil {
						msg = i.T.String()
					}
				}
				outcome = "panic"
				m.violate("uncaught panic: "+msg, x.site, nil)
			default:
				// a bug or a gap in the executor itself (e.g. a value of an unexpected kind): this
				// path is inconclusive, the process goes on
				outcome = "engine"
				errMsg = fmt.Sprint("internal executor error: ", r)
				if m.curFn != nil {
					errMsg += " (in " + fnName(m.curFn) + ")"
				}
				if os.Getenv("VERIF_DEBUG_STACK") != "" {
					fmt.Fprintf(os.Stderr, "%s\n%s\n", errMsg, debug.Stack())
				}
				if len(errMsg) > 200 {
					errMsg = errMsg[:200]
				}
			}
		}()
		if ex.initState == nil {
			for _, p := range ex.repoPkgs {
				m.callFn(nil, p.Func("init"), nil, nil)
			}
		}
		m.callFn(nil, harness, []Value{Int{V: uint64(int64(arg))}}, nil)
	}()
	if m.par != nil {
		m.killThreads()
	}
	// leaf bookkeeping
	var leaf *Leaf
	ex.mu.Lock()
	st := ex.stats
	st.Paths++
	st.Steps += m.steps
	st.Decisions += len(m.trail)
	switch {
	case outcome == "engine":
		st.EngineErrs[errMsg]++
	case strings.HasPrefix(outcome, "abort:"):
		st.Aborted[outcome[6:]]++
	}
	if outcome == "ok" || outcome == "panic" || outcome == "abort:assertion failed" {
		for _, c := range m.covers {
			st.Cover[c]++
		}
	}
	wantLeaf := false
	engineOnly := false // nondeterminism of stubs that are real functions natively cannot be replayed
	for _, e := range m.ndlog {
		if strings.HasPrefix(e.Name, "dump") {
			engineOnly = true
		}
	}
	if outcome == "ok" && ex.maxLeaves > 0 && !engineOnly {
		ex.leafCtr++
		if len(st.Leaves) < ex.maxLeaves && (ex.leafCtr%ex.leafSample == 1 || ex.leafSample == 1) {
			wantLeaf = true
		}
	}
	if ex.maxPaths > 0 && st.Paths >= ex.maxPaths || (!ex.deadline.IsZero() && time.Now().After(ex.deadline)) {
		if len(ex.work) > 0 || ex.active > 1 {
			st.Truncated = true
		}
		ex.stop = true
		ex.cond.Broadcast()
	}
	ex.mu.Unlock()
	if wantLeaf {
		var model map[string]uint64
		r := resSat
		if len(m.pc) > 0 {
			r, model = m.solver.Sat(m.pc, m.allVars())
		} else {
			model = map[string]uint64{}
		}
		if r == resSat && !m.reCompilesRealistic(model) {
			// the model picked an answer of the uninterpreted regexp.Compile that the real function
			// does not give for these bytes: not a natively replayable witness
			r = resUnknown
		}
		if r == resSat {
			leaf = &Leaf{Entry: st.Entry, Arg: arg, Values: append(concretise(m.ndlog, model), m.ufTable(model)...), Covers: append([]string{}, m.covers...), PCLen: len(m.pc)}
			for _, o := range m.obs {
				leaf.Obs = append(leaf.Obs, o.Label+"="+showValue(o.V, model))
			}
			ex.mu.Lock()
			st.Leaves = append(st.Leaves, *leaf)
			ex.mu.Unlock()
		} else if r == resUnsat {
			ex.mu.Lock()
			st.EngineErrs["leaf path condition unsatisfiable (engine inconsistency)"]++
			ex.mu.Unlock()
		}
	}
}

func topN(mp map[string]int, n int, filter func(string) bool) []string {
	type kv struct {
		k string
		v int
	}
	var kvs []kv
	for k, v := range mp {
		if filter == nil || filter(k) {
			kvs = append(kvs, kv{k, v})
		}
	}
	sort.Slice(kvs, func(i, j int) bool { return kvs[i].v > kvs[j].v || (kvs[i].v == kvs[j].v && kvs[i].k < kvs[j].k) })
	var out []string
	for i, e := range kvs {
		if i >= n {
			break
		}
		out = append(out, fmt.Sprintf("%s:%d", e.k, e.v))
	}
	return out
}

func collectRepoGlobals(prog *ssa.Program) (pkgs []*ssa.Package, globals []*ssa.Global) {
	all := prog.AllPackages()
	sort.Slice(all, func(i, j int) bool { return all[i].Pkg.Path() < all[j].Pkg.Path() })
	for _, p := range all {
		if !isRepoPkg(p) {
			continue
		}
		pkgs = append(pkgs, p)
		var names []string
		for n, mem := range p.Members {
			if _, ok := mem.(*ssa.Global); ok {
				names = append(names, n)
			}
		}
		sort.Strings(names)
		for _, n := range names {
			globals = append(globals, p.Members[n].(*ssa.Global))
		}
	}
	// initialisation order: dependencies first
	order := map[*types.Package]int{}
	var visit func(p *types.Package)
	n := 0
	visit = func(p *types.Package) {
		if _, ok := order[p]; ok {
			return
		}
		order[p] = -1
		for _, imp := range p.Imports() {
			visit(imp)
		}
		n++
		order[p] = n
	}
	for _, p := range pkgs {
		visit(p.Pkg)
	}
	sort.SliceStable(pkgs, func(i, j int) bool { return order[pkgs[i].Pkg] < order[pkgs[j].Pkg] })
	return
}

// runInits executes the package initialisers of the repository's packages once
// (they are deterministic and take no input) and keeps the resulting globals.
func (ex *Explorer) runInits() {
	m := &Machine{ex: ex, prog: ex.prog, fnSteps: map[*ssa.Function]int{}, fnBranches: map[*ssa.Function]int{}}
	ex.stats = &RunStats{Unknowns: map[string]int{}}
	m.resetPath(nil)
	func() {
		defer func() {
			if r := recover(); r != nil {
				panic(engineErr{fmt.Sprint("package initialisers failed under the executor: ", r)})
			}
		}()
		for _, p := range ex.repoPkgs {
			m.callFn(nil, p.Func("init"), nil, nil)
		}
	}()
	ex.initSteps = m.steps
	ex.initState = m.globals
}

// runDepInits executes the initialisers of a few small dependency packages whose tables library
// code reads (unicode/utf8); their globals become read-only values shared by all paths.
func (ex *Explorer) runDepInits() {
	for _, p := range ex.prog.AllPackages() {
		// packages whose initialisers only fill tables (utf8.first/acceptRanges, strings.asciiSpace, ...)
		if pp := p.Pkg.Path(); pp != "unicode/utf8" && pp != "strings" && pp != "bytes" && pp != "text/template" {
			continue
		}
		init := p.Func("init")
		if init == nil || init.Blocks == nil {
			continue
		}
		m := &Machine{ex: ex, prog: ex.prog, fnSteps: map[*ssa.Function]int{}, fnBranches: map[*ssa.Function]int{}}
		saved := ex.stats
		ex.stats = &RunStats{Unknowns: map[string]int{}}
		m.resetPath(nil)
		for name, mem := range p.Members {
			if g, ok := mem.(*ssa.Global); ok {
				v := zero(g.Type().Underlying().(*types.Pointer).Elem())
				m.globals[g] = &v
				_ = name
			}
		}
		func() {
			defer func() { recover() }()
			// run the body directly (callFn would skip a dependency initialiser)
			fr := &frame{fn: init, env: map[ssa.Value]Value{}}
			fr.block = init.Blocks[0]
			for fr.block != nil {
				m.runFrame(fr)
			}
		}()
		for _, mem := range p.Members {
			if g, ok := mem.(*ssa.Global); ok {
				ex.depGlobals[p.Pkg.Path()+"."+g.Name()] = m.globals[g]
			}
		}
		ex.stats = saved
	}
}
