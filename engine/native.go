package main

import (
	"encoding/json"
	"fmt"
	"os"
	"os/exec"
	"path/filepath"
	"strings"
	"sync"
	"time"
)

func syncCond(mu *sync.Mutex) *sync.Cond { return sync.NewCond(mu) }

type replayCase struct {
	Entry  string    `json:"entry"`
	Arg    int       `json:"arg"`
	Values []NDValue `json:"values"`
}

type nativeResult struct {
	Failed  []string `json:"failed"`
	Obs     []string `json:"obs"`
	Covers  []string `json:"covers"`
	Panic   string   `json:"panic"`
	Runtime bool     `json:"runtime"`
	Desync  string   `json:"desync"`
}

type nativeRun struct {
	Results []nativeResult
	Err     string // non-empty when the native run as a whole failed (build error, crash, timeout)
	Output  string
	Dur     time.Duration
}

func violationCases(vs []*Violation) []replayCase {
	var cs []replayCase
	for _, v := range vs {
		cs = append(cs, replayCase{Entry: v.Entry, Arg: v.Arg, Values: v.Values})
	}
	return cs
}

// replayNative compiles the harness package with the ordinary Go compiler
// (go test -tags verif -overlay ...) and runs the given cases against the real build.
func replayNative(l *loaded, repoDir, hdir string, cases []replayCase, race bool) *nativeRun {
	return replayNativeT(l, repoDir, hdir, cases, race, "300s")
}

func replayNativeT(l *loaded, repoDir, hdir string, cases []replayCase, race bool, timeout string) *nativeRun {
	t0 := time.Now()
	nr := &nativeRun{}
	if len(cases) == 0 {
		return nr
	}
	tmp, err := os.MkdirTemp("", "verif-native-")
	if err != nil {
		nr.Err = err.Error()
		return nr
	}
	defer os.RemoveAll(tmp)
	pkg := l.pkgs[hdir]
	var sb strings.Builder
	fmt.Fprintf(&sb, "//go:build verif\n\npackage %s\n\nimport (\n\t\"testing\"\n\n\tzzv \"%s/internal/zzverif\"\n)\n\n", pkg.Pkg.Name(), repoPath)
	sb.WriteString("func Test_verif_replay(t *testing.T) {\n\tzzv.RunReplay(t, map[string]func(int){\n")
	for _, e := range l.entries[hdir] {
		fmt.Fprintf(&sb, "\t\t%q: %s,\n", e, e)
	}
	sb.WriteString("\t})\n}\n")
	testFile := filepath.Join(tmp, "replay_test.go")
	os.WriteFile(testFile, []byte(sb.String()), 0o644)
	ov := struct{ Replace map[string]string }{Replace: map[string]string{}}
	for virt, real := range l.overlay {
		ov.Replace[virt] = real
	}
	ov.Replace[filepath.Join(repoDir, harnessDirs[hdir], "zz_verif_replay_test.go")] = testFile
	ovFile := filepath.Join(tmp, "overlay.json")
	os.WriteFile(ovFile, mustJSON(ov), 0o644)
	caseFile := filepath.Join(tmp, "cases.json")
	outFile := filepath.Join(tmp, "out.json")
	os.WriteFile(caseFile, mustJSON(cases), 0o644)
	args := []string{"test", "-tags", "verif", "-vet=off", "-count=1", "-timeout", timeout, "-overlay", ovFile, "-run", "^Test_verif_replay$"}
	if race {
		args = append(args, "-race")
	}
	args = append(args, "./"+harnessDirs[hdir])
	cmd := exec.Command("go", args...)
	cmd.Dir = repoDir
	cmd.Env = append(os.Environ(), "GOFLAGS=-mod=mod", "GOPROXY=off", "GOSUMDB=off", "GOTOOLCHAIN=local",
		"VERIF_REPLAY="+caseFile, "VERIF_REPLAY_OUT="+outFile)
	out, err := cmd.CombinedOutput()
	nr.Output = string(out)
	nr.Dur = time.Since(t0)
	data, rerr := os.ReadFile(outFile)
	if rerr != nil {
		nr.Err = "native run produced no result file"
		if err != nil {
			nr.Err += ": " + err.Error()
		}
		return nr
	}
	if jerr := json.Unmarshal(data, &nr.Results); jerr != nil {
		nr.Err = jerr.Error()
	}
	if err != nil && nr.Err == "" && race && strings.Contains(nr.Output, "DATA RACE") {
		nr.Err = ""
	}
	return nr
}

func reproduced(r *nativeResult, label string) bool {
	if strings.HasPrefix(label, "uncaught panic") {
		return r.Panic != ""
	}
	for _, f := range r.Failed {
		if f == label {
			return true
		}
	}
	return false
}

func describeNative(nr *nativeRun, i int, label string) string {
	if nr.Err != "" {
		return "NATIVE-ERROR(" + nr.Err + ")"
	}
	if i >= len(nr.Results) {
		return "missing"
	}
	r := &nr.Results[i]
	if reproduced(r, label) {
		return "REPRODUCED"
	}
	return fmt.Sprintf("not reproduced (failed=%v panic=%q desync=%q)", r.Failed, r.Panic, r.Desync)
}

// validateLeaves replays witness inputs of completed symbolic paths natively and
// compares assertion outcomes, observation logs and cover points.
func validateLeaves(l *loaded, repoDir, hdir string, leaves []Leaf) []string {
	var cases []replayCase
	for _, lf := range leaves {
		cases = append(cases, replayCase{Entry: lf.Entry, Arg: lf.Arg, Values: lf.Values})
	}
	nr := replayNative(l, repoDir, hdir, cases, false)
	var bad []string
	if nr.Err != "" {
		return []string{"native run failed: " + nr.Err + "\n" + tail(nr.Output, 2000)}
	}
	for i, lf := range leaves {
		r := nr.Results[i]
		var why []string
		if len(r.Failed) > 0 {
			why = append(why, fmt.Sprintf("native assertion failures %v", r.Failed))
		}
		if r.Panic != "" {
			why = append(why, "native panic "+r.Panic)
		}
		if r.Desync != "" {
			why = append(why, "nondet desync: "+r.Desync)
		}
		if strings.Join(r.Obs, "|") != strings.Join(lf.Obs, "|") {
			why = append(why, fmt.Sprintf("observations differ: engine %v native %v", lf.Obs, r.Obs))
		}
		if strings.Join(r.Covers, "|") != strings.Join(lf.Covers, "|") {
			why = append(why, fmt.Sprintf("covers differ: engine %v native %v", lf.Covers, r.Covers))
		}
		if len(why) > 0 {
			bad = append(bad, fmt.Sprintf("%s(%d) %s: %s", lf.Entry, lf.Arg, showValues(lf.Values), strings.Join(why, "; ")))
		}
	}
	return bad
}

func tail(s string, n int) string {
	if len(s) > n {
		return s[len(s)-n:]
	}
	return s
}
