package main

import (
	"fmt"
	"go/token"
	"go/types"
	"html"
	"math/bits"
	"mime"
	"net/textproto"
	"reflect"
	"regexp"
	"strconv"
	"strings"

	"golang.org/x/tools/go/ssa"
)

var opaqueErrType = types.NewNamed(types.NewTypeName(token.NoPos, nil, "opaqueError", nil), types.Typ[types.String], nil)

type intrinsic func(m *Machine, fr *frame, fn *ssa.Function, args []Value) Value

var intrinsics map[string]intrinsic

// stubsUsed records which non-trivial stubs were exercised (reported in evidence).
const vp = "github.com/issue9/mux/v9/internal/zzverif."

func init() {
	intrinsics = map[string]intrinsic{
		vp + "Bytes":      inBytes,
		vp + "Choice":     inChoice,
		vp + "Int":        inInt,
		vp + "Bool":       inBoolND,
		vp + "Assert":     inAssert,
		vp + "Assume":     inAssume,
		vp + "Cover":      inCover,
		vp + "Obs":        inObs,
		vp + "ObsInt":     inObs,
		vp + "Par":        inPar,
		vp + "Blob":       inBlob,
		vp + "IsRuntime":  inIsRuntime,
		vp + "IsSymbolic": func(m *Machine, fr *frame, fn *ssa.Function, a []Value) Value { return Bool{B: !a[0].(Str).isConc()} },
		vp + "Symbolic":   func(*Machine, *frame, *ssa.Function, []Value) Value { return Bool{B: true} },
		vp + "PoolReuse":  inPoolReuse,
		vp + "ErrString":  inErrString,
		vp + "Reset":      nop,
		vp + "UFPred":     inUFPred,

		"strings.Index":                  inIndex,
		"internal/stringslite.Index":     inIndex,
		"strings.IndexByte":              inIndexByte,
		"internal/stringslite.IndexByte": inIndexByte,
		"strings.LastIndexByte":          inLastIndexByte,
		"strings.Count":                  inCount,
		"strings.Join":                   inJoin,
		"strings.ToLower":                inToLower,
		"strings.TrimSpace":              inTrimSpace,
		"strings.Clone":                  func(m *Machine, fr *frame, fn *ssa.Function, a []Value) Value { return a[0] },
		"internal/stringslite.Clone":     func(m *Machine, fr *frame, fn *ssa.Function, a []Value) Value { return a[0] },
		"(*strings.Builder).Grow":        inBuilderGrow,
		"(*strings.Builder).WriteString": inSBWrite,
		"(*strings.Builder).WriteByte":   inSBWriteByte,
		"(*strings.Builder).WriteRune":   inSBWriteRune,
		"(*strings.Builder).String":      inSBString,
		"(*strings.Builder).Len": func(m *Machine, fr *frame, fn *ssa.Function, a []Value) Value {
			return Int{V: uint64(len(sbBuf(a[0])))}
		},
		"(*strings.Builder).Reset": func(m *Machine, fr *frame, fn *ssa.Function, a []Value) Value {
			(*a[0].(*Value)).(Struct)[1] = []Value(nil)
			return nil
		},
		"regexp.Compile":                           inReCompile,
		"regexp.QuoteMeta":                         inQuoteMeta,
		"(*regexp.Regexp).FindStringIndex":         inReFind,
		"(*regexp.Regexp).FindStringSubmatchIndex": inReFind,
		"(*regexp.Regexp).MatchString":             inReMatch,
		"(*regexp.Regexp).FindString":              inReFindString,
		"(*regexp.Regexp).FindStringSubmatch":      inReFindString,
		"(*sync.Pool).Get":                         inPoolGet,
		"(*sync.Pool).Put":                         inPoolPut,
		"(*sync.RWMutex).Lock":                     inLock,
		"(*sync.RWMutex).Unlock":                   inUnlock,
		"(*sync.RWMutex).RLock":                    inRLock,
		"(*sync.RWMutex).RUnlock":                  inRUnlock,
		"(*sync.Mutex).Lock":                       inLock,
		"(*sync.Mutex).Unlock":                     inUnlock,
		"(*sync.Once).Do":                          inOnceDo,
		"strings.ToUpper":                          inToUpper,
		"(*sync.Map).Load":                         inSyncMapLoad,
		"(*sync.Map).Store":                        inSyncMapStore,
		"(*sync.Map).LoadOrStore":                  inSyncMapLoadOrStore,
		"(*sync.Map).Delete":                       inSyncMapDelete,
		"fmt.Errorf":                               inErrorf,
		"fmt.Sprintf":                              inSprintf,
		"fmt.Sprint":                               func(m *Machine, fr *frame, fn *ssa.Function, a []Value) Value { return Str{S: "<sprint>"} },
		"log.Println":                              nop,
		"(*log.Logger).Println":                    nop,
		"(*log/slog.Logger).Error":                 nop,
		"github.com/issue9/source.DumpStack":       nop,
		"github.com/issue9/source.Stack":           func(m *Machine, fr *frame, fn *ssa.Function, a []Value) Value { return Str{S: "<stack>"} },
		"net/http.Error":                           inHTTPError,
		"net/textproto.CanonicalMIMEHeaderKey":     inCanonicalKey,
		"net/http.CanonicalHeaderKey":              inCanonicalKey,
		"strconv.Itoa":                             inItoa,
		"strconv.ParseFloat":                       inParseFloat,
		"strconv.Quote": func(m *Machine, fr *frame, fn *ssa.Function, a []Value) Value {
			return concat(concat(Str{S: "\""}, a[0].(Str)), Str{S: "\""})
		},
		"mime.ParseMediaType":           inParseMediaType,
		"net/http/httputil.DumpRequest": inDumpRequest,
		"html.EscapeString":             inEscapeString,
	}
}

func nop(*Machine, *frame, *ssa.Function, []Value) Value { return nil }

// (*strings.Builder).Grow only changes capacity, which the model does not track,
// but it panics on a negative count.
func inBuilderGrow(m *Machine, fr *frame, fn *ssa.Function, a []Value) Value {
	n := a[1].(Int)
	neg := int64(n.V) < 0
	if n.T != nil {
		neg = m.branchIn(fr, mkBool(tBin("bvslt", 0, n.T, bvConst(0, n.T.W))))
	}
	if neg {
		panic(goPanic{v: Iface{T: types.Typ[types.String], V: Str{S: "strings.Builder.Grow: negative count"}}, site: "strings.Builder.Grow"})
	}
	return nil
}

func opaqueErr(msg string) Value { return Iface{T: opaqueErrType, V: Str{S: msg}} }

func inErrorf(m *Machine, fr *frame, fn *ssa.Function, a []Value) Value {
	return opaqueErr("<error:" + a[0].(Str).S + ">")
}

func inSprintf(m *Machine, fr *frame, fn *ssa.Function, a []Value) Value {
	return Str{S: "<sprintf:" + a[0].(Str).S + ">"}
}

func (m *Machine) newBytes(name string, l int) Str {
	s := Str{S: strings.Repeat("?", l), Sym: make([]*Term, l)}
	for i := 0; i < l; i++ {
		s.Sym[i] = m.freshVar(name, 8)
	}
	if l == 0 {
		s.Sym = nil
	}
	return s
}

// Bytes(name, max): a string of length 0..max; every byte an unconstrained 8-bit variable.
func inBytes(m *Machine, fr *frame, fn *ssa.Function, a []Value) Value {
	name := a[0].(Str).S
	max := m.concInt(a[1])
	l := m.choose(make([]*Term, max+1))
	s := m.newBytes(name, l)
	m.ndlog = append(m.ndlog, ndEntry{Kind: "bytes", Name: name, N: l, Terms: append([]*Term{}, s.Sym...)})
	return s
}

func inChoice(m *Machine, fr *frame, fn *ssa.Function, a []Value) Value {
	n := m.concInt(a[1])
	if n <= 0 {
		unsupported("Choice with n<=0")
	}
	d := m.choose(make([]*Term, n))
	m.ndlog = append(m.ndlog, ndEntry{Kind: "choice", Name: a[0].(Str).S, N: d})
	return Int{V: uint64(d)}
}

// Int(name): an unconstrained 64-bit int.
func inInt(m *Machine, fr *frame, fn *ssa.Function, a []Value) Value {
	v := m.freshVar(a[0].(Str).S, 64)
	m.ndlog = append(m.ndlog, ndEntry{Kind: "int", Name: a[0].(Str).S, Terms: []*Term{v}})
	return Int{T: v}
}

func inBoolND(m *Machine, fr *frame, fn *ssa.Function, a []Value) Value {
	v := m.freshVar(a[0].(Str).S, 0)
	m.ndlog = append(m.ndlog, ndEntry{Kind: "bool", Name: a[0].(Str).S, Terms: []*Term{v}})
	return Bool{T: v}
}

// Blob(n): a []byte of (possibly symbolic) length n with unobservable content.
func inBlob(m *Machine, fr *frame, fn *ssa.Function, a []Value) Value {
	return Blob{Len: a[0].(Int)}
}

func inIsRuntime(m *Machine, fr *frame, fn *ssa.Function, a []Value) Value {
	x := a[0].(Iface)
	return Bool{B: x.T == rtErrType}
}

// ErrString(err): the message of an error as a string usable in observations.
func inErrString(m *Machine, fr *frame, fn *ssa.Function, a []Value) Value {
	x := a[0].(Iface)
	if x.T == nil {
		return Str{}
	}
	return Str{S: "error"}
}

func inPoolReuse(m *Machine, fr *frame, fn *ssa.Function, a []Value) Value { return nil }

func inAssert(m *Machine, fr *frame, fn *ssa.Function, a []Value) Value {
	c := a[0].(Bool)
	label := a[1].(Str).S
	m.ex.noteAssert()
	if c.T == nil {
		if !c.B {
			m.violate(label, m.where(fr, nil), nil)
			panic(abortPath{"assertion failed"})
		}
		return nil
	}
	m.violate(label, m.where(fr, nil), tNot(c.T))
	if !m.feasible(c.T) {
		panic(abortPath{"assert leaves nothing"})
	}
	m.addPC(c.T)
	return nil
}

func inAssume(m *Machine, fr *frame, fn *ssa.Function, a []Value) Value {
	c := a[0].(Bool)
	if c.T == nil {
		if !c.B {
			panic(abortPath{"assume false"})
		}
		return nil
	}
	if !m.feasible(c.T) {
		panic(abortPath{"assume infeasible"})
	}
	m.addPC(c.T)
	return nil
}

func inCover(m *Machine, fr *frame, fn *ssa.Function, a []Value) Value {
	m.covers = append(m.covers, a[0].(Str).S)
	return nil
}

func inObs(m *Machine, fr *frame, fn *ssa.Function, a []Value) Value {
	v := a[1]
	if i, ok := v.(Iface); ok {
		v = i.V
	}
	m.obs = append(m.obs, obsEntry{Label: a[0].(Str).S, V: v})
	return nil
}

// UFPred(name, s): an uninterpreted predicate over the bytes of s (one function per name and
// length). Every application is remembered so that a counterexample carries the model's
// function table and the native replay can answer the same way.
func inUFPred(m *Machine, fr *frame, fn *ssa.Function, a []Value) Value {
	name := a[0].(Str).S
	s := a[1].(Str)
	args := make([]*Term, len(s.S))
	for i := 0; i < len(s.S); i++ {
		args[i] = s.byteTerm(i)
	}
	var t *Term
	if len(args) == 0 {
		t = bvVarBool(fmt.Sprintf("uf_%s_0", name))
	} else {
		t = mk("uf", 0, fmt.Sprintf("uf_%s_%d", name, len(args)), 0, args...)
	}
	m.ufApps = append(m.ufApps, ufApp{name: name, arg: s, t: t})
	return Bool{T: t}
}

type ufApp struct {
	name string
	arg  Str
	t    *Term
}

func bvVarBool(name string) *Term { return mk("var", 0, name, 0) }

func matchAt(s, sep Str, i int) *Term {
	var cs []*Term
	for j := 0; j < len(sep.S); j++ {
		cs = append(cs, tEq(s.byteTerm(i+j), sep.byteTerm(j)))
	}
	return tAnd(cs...)
}

func inIndex(m *Machine, fr *frame, fn *ssa.Function, a []Value) Value {
	s, sep := a[0].(Str), a[1].(Str)
	if s.isConc() && sep.isConc() {
		return Int{V: uint64(int64(strings.Index(s.S, sep.S)))}
	}
	n := len(s.S) - len(sep.S)
	if n < 0 {
		return Int{V: ^uint64(0)}
	}
	// sequential binary forks: first position that matches
	for i := 0; i <= n; i++ {
		if m.branchIn(fr, mkBool(matchAt(s, sep, i))) {
			return Int{V: uint64(i)}
		}
	}
	return Int{V: ^uint64(0)}
}

func inIndexByte(m *Machine, fr *frame, fn *ssa.Function, a []Value) Value {
	c := a[1].(Int)
	var sep Str
	if c.T == nil {
		sep = Str{S: string([]byte{byte(c.V)})}
	} else {
		sep = Str{S: "?", Sym: []*Term{c.T}}
	}
	return inIndex(m, fr, fn, []Value{a[0], sep})
}

func inLastIndexByte(m *Machine, fr *frame, fn *ssa.Function, a []Value) Value {
	s := a[0].(Str)
	c := a[1].(Int)
	if s.isConc() && c.T == nil {
		return Int{V: uint64(int64(strings.LastIndexByte(s.S, byte(c.V))))}
	}
	for i := len(s.S) - 1; i >= 0; i-- {
		if m.branchIn(fr, mkBool(tEq(s.byteTerm(i), c.term(8)))) {
			return Int{V: uint64(i)}
		}
	}
	return Int{V: ^uint64(0)}
}

func inCount(m *Machine, fr *frame, fn *ssa.Function, a []Value) Value {
	s, sep := a[0].(Str), a[1].(Str)
	if s.isConc() && sep.isConc() {
		return Int{V: uint64(strings.Count(s.S, sep.S))}
	}
	if len(sep.S) == 0 {
		unsupported("symbolic strings.Count with empty sep")
	}
	n := 0
	for i := 0; i+len(sep.S) <= len(s.S); {
		if m.branchIn(fr, mkBool(matchAt(s, sep, i))) {
			n++
			i += len(sep.S)
		} else {
			i++
		}
	}
	return Int{V: uint64(n)}
}

// ToLower: exact for ASCII bytes; a symbolic byte >= 0x80 is outside the model (engine error).
func inToLower(m *Machine, fr *frame, fn *ssa.Function, a []Value) Value {
	s := a[0].(Str)
	if s.isConc() {
		return Str{S: strings.ToLower(s.S)}
	}
	out := Str{S: strings.ToLower(s.S), Sym: make([]*Term, len(s.S))}
	bs := []byte(s.S)
	for i := range bs {
		if s.Sym[i] == nil {
			if bs[i] >= 0x80 {
				unsupported("strings.ToLower on non-ASCII concrete byte mixed with symbolic bytes")
			}
			continue
		}
		b := s.Sym[i]
		m.assumeASCII(b, "strings.ToLower")
		up := tAnd(tBin("bvuge", 0, b, bvConst('A', 8)), tBin("bvule", 0, b, bvConst('Z', 8)))
		out.Sym[i] = tIte(up, tBin("bvadd", 8, b, bvConst(32, 8)), b)
	}
	bo := []byte(out.S)
	for i := range bo {
		if out.Sym[i] != nil {
			bo[i] = '?'
		}
	}
	out.S = string(bo)
	return out
}

func (m *Machine) isASCIISpace(fr *frame, s Str, i int) bool {
	b := s.at(i)
	if b.T == nil {
		if b.V >= 0x80 {
			unsupported("strings.TrimSpace: non-ASCII byte in partly symbolic string")
		}
		return b.V == ' ' || (b.V >= '\t' && b.V <= '\r')
	}
	m.assumeASCII(b.T, "strings.TrimSpace")
	sp := tOr(tEq(b.T, bvConst(' ', 8)), tAnd(tBin("bvuge", 0, b.T, bvConst('\t', 8)), tBin("bvule", 0, b.T, bvConst('\r', 8))))
	return m.branchIn(fr, mkBool(sp))
}

func inTrimSpace(m *Machine, fr *frame, fn *ssa.Function, a []Value) Value {
	s := a[0].(Str)
	if s.isConc() {
		return Str{S: strings.TrimSpace(s.S)}
	}
	lo, hi := 0, len(s.S)
	for lo < hi && m.isASCIISpace(fr, s, lo) {
		lo++
	}
	for hi > lo && m.isASCIISpace(fr, s, hi-1) {
		hi--
	}
	return s.slice(lo, hi)
}

func inReCompile(m *Machine, fr *frame, fn *ssa.Function, a []Value) Value {
	s := a[0].(Str)
	if !s.isConc() {
		// uninterpreted: compiles or not is an arbitrary (but consistent) function of the bytes
		args := make([]*Term, len(s.S))
		for i := 0; i < len(s.S); i++ {
			args[i] = s.byteTerm(i)
		}
		okT := mk("uf", 0, fmt.Sprintf("uf_recompile_%d", len(args)), 0, args...)
		ok := m.branchIn(fr, Bool{T: okT})
		m.reCompiles = append(m.reCompiles, reCompile{s: s, ok: ok})
		if ok {
			var v Value = Native{X: (*regexp.Regexp)(nil)}
			return Tuple{&v, Iface{}}
		}
		return Tuple{(*Value)(nil), opaqueErr("regexp error")}
	}
	re, err := regexp.Compile(s.S)
	if err != nil {
		return Tuple{(*Value)(nil), opaqueErr(err.Error())}
	}
	var v Value = Native{X: re}
	return Tuple{&v, Iface{}}
}

func reOf(v Value) *regexp.Regexp {
	p := v.(*Value)
	if p == nil {
		unsupported("method call on nil *regexp.Regexp")
	}
	re := (*p).(Native).X.(*regexp.Regexp)
	if re == nil {
		unsupported("use of an uninterpreted regexp")
	}
	return re
}

func inReFind(m *Machine, fr *frame, fn *ssa.Function, a []Value) Value {
	re := reOf(a[0])
	s := a[1].(Str)
	var loc []int
	if s.isConc() {
		loc = re.FindStringSubmatchIndex(s.S)
	} else {
		loc = m.reSearch(re, s)
	}
	if loc == nil {
		return []Value(nil)
	}
	if strings.HasSuffix(fn.Name(), "FindStringIndex") {
		loc = loc[:2]
	}
	out := make([]Value, len(loc))
	for i, x := range loc {
		out[i] = Int{V: uint64(int64(x))}
	}
	return out
}

func inReMatch(m *Machine, fr *frame, fn *ssa.Function, a []Value) Value {
	re := reOf(a[0])
	s := a[1].(Str)
	if s.isConc() {
		return Bool{B: re.MatchString(s.S)}
	}
	return Bool{B: m.reSearch(re, s) != nil}
}

// sync.Pool: Get returns the most recently Put object, else New().  (Single
// goroutine: this is what the runtime does between GCs; with logical threads
// the choice among free objects is a symbolic decision.)
func inPoolGet(m *Machine, fr *frame, fn *ssa.Function, a []Value) Value {
	p := a[0].(*Value)
	free := m.poolFree[p]
	if len(free) > 0 {
		k := len(free) - 1
		if m.par != nil && len(free) > 1 {
			k = m.choose(make([]*Term, len(free)))
		}
		v := free[k]
		m.poolFree[p] = append(append([]Value{}, free[:k]...), free[k+1:]...)
		m.poolSync(p, false)
		return v
	}
	st := fn.Signature.Recv().Type().(*types.Pointer).Elem().Underlying().(*types.Struct)
	for i := 0; i < st.NumFields(); i++ {
		if st.Field(i).Name() == "New" {
			nf := (*p).(Struct)[i].(*Closure)
			if nf == nil {
				return Iface{}
			}
			return m.callValue(fr, nf, nil)
		}
	}
	return Iface{}
}

func inPoolPut(m *Machine, fr *frame, fn *ssa.Function, a []Value) Value {
	p := a[0].(*Value)
	m.poolSync(p, true)
	// an object that is already in the pool is being released a second time: two later
	// Gets would hand the same object to two users at once
	if i, ok := a[1].(Iface); ok {
		if ptr, ok := i.V.(*Value); ok && ptr != nil {
			for _, f := range m.poolFree[p] {
				if fi, ok := f.(Iface); ok {
					if fp, ok := fi.V.(*Value); ok && fp == ptr {
						m.violate("pooled object released twice", m.where(fr, nil), nil)
					}
				}
			}
		}
	}
	m.poolFree[p] = append(m.poolFree[p], a[1])
	return nil
}

func inJoin(m *Machine, fr *frame, fn *ssa.Function, a []Value) Value {
	parts := a[0].([]Value)
	sep := a[1].(Str)
	var r Str
	for i, p := range parts {
		if i > 0 {
			r = concat(r, sep)
		}
		r = concat(r, p.(Str))
	}
	return r
}

func sbBuf(p Value) []Value { b, _ := (*p.(*Value)).(Struct)[1].([]Value); return b }

func inSBWrite(m *Machine, fr *frame, fn *ssa.Function, a []Value) Value {
	st := (*a[0].(*Value)).(Struct)
	s := a[1].(Str)
	buf, _ := st[1].([]Value)
	for k := 0; k < len(s.S); k++ {
		buf = append(buf, s.at(k))
	}
	st[1] = buf
	return Tuple{Int{V: uint64(len(s.S))}, Iface{}}
}

func inSBWriteByte(m *Machine, fr *frame, fn *ssa.Function, a []Value) Value {
	st := (*a[0].(*Value)).(Struct)
	buf, _ := st[1].([]Value)
	st[1] = append(buf, a[1])
	return Iface{}
}

// WriteRune: UTF-8 encoding of a concrete rune; a symbolic rune is restricted to ASCII (counted).
func inSBWriteRune(m *Machine, fr *frame, fn *ssa.Function, a []Value) Value {
	st := (*a[0].(*Value)).(Struct)
	buf, _ := st[1].([]Value)
	r := a[1].(Int)
	if r.T != nil {
		m.assumeASCIIRune(r.T, "strings.Builder.WriteRune")
		st[1] = append(buf, Int{T: resize(r.T, 8)})
		return Tuple{Int{V: 1}, Iface{}}
	}
	enc := string(rune(int32(r.V)))
	for k := 0; k < len(enc); k++ {
		buf = append(buf, Int{V: uint64(enc[k])})
	}
	st[1] = buf
	return Tuple{Int{V: uint64(len(enc))}, Iface{}}
}

func inSBString(m *Machine, fr *frame, fn *ssa.Function, a []Value) Value {
	return bytesToStr(sbBuf(a[0]))
}

func inCanonicalKey(m *Machine, fr *frame, fn *ssa.Function, a []Value) Value {
	s := a[0].(Str)
	if !s.isConc() {
		unsupported("CanonicalMIMEHeaderKey on a symbolic header name")
	}
	return Str{S: textproto.CanonicalMIMEHeaderKey(s.S)}
}

// invoke calls method name on an interface value.
func (m *Machine) invoke(fr *frame, recv Value, name string, args ...Value) Value {
	i := recv.(Iface)
	if i.T == nil {
		m.fault(fr, nil, "invalid memory address or nil pointer dereference (method call on nil interface)")
	}
	ms := m.prog.MethodSets.MethodSet(i.T)
	for k := 0; k < ms.Len(); k++ {
		if ms.At(k).Obj().Name() == name {
			f := m.prog.MethodValue(ms.At(k))
			return m.callFn(fr, f, append([]Value{i.V}, args...), nil)
		}
	}
	unsupported("invoke: no method %s on %s", name, i.T)
	return nil
}

// http.Error(w, msg, code): its documented effect on the writer.
func inHTTPError(m *Machine, fr *frame, fn *ssa.Function, a []Value) Value {
	h := m.invoke(fr, a[0], "Header").(*Map)
	if h != nil {
		m.mapDelete(h, Str{S: "Content-Length"})
		m.mapUpdate(h, Str{S: "Content-Type"}, []Value{Str{S: "text/plain; charset=utf-8"}})
		m.mapUpdate(h, Str{S: "X-Content-Type-Options"}, []Value{Str{S: "nosniff"}})
	}
	m.invoke(fr, a[0], "WriteHeader", a[2])
	msg := concat(a[1].(Str), Str{S: "\n"})
	bs := make([]Value, len(msg.S))
	for i := range bs {
		bs[i] = msg.at(i)
	}
	m.invoke(fr, a[0], "Write", bs)
	return nil
}

// strconv.Itoa on a symbolic int: exact for 0 <= v < 10^6 (checked with the solver).
func inItoa(m *Machine, fr *frame, fn *ssa.Function, a []Value) Value {
	v := a[0].(Int)
	if v.T == nil {
		return Str{S: strconv.Itoa(int(int64(v.V)))}
	}
	w := v.T.W
	out := tOr(tBin("bvslt", 0, v.T, bvConst(0, w)), tBin("bvsge", 0, v.T, bvConst(1000000, w)))
	if m.feasible(out) {
		unsupported("strconv.Itoa on a symbolic int not bounded to [0,10^6) by the path condition")
	}
	t32 := resize(v.T, 32)
	pow := []uint64{1, 10, 100, 1000, 10000, 100000}
	nd := 1
	for nd < 6 {
		if !m.branchIn(fr, mkBool(tBin("bvuge", 0, t32, bvConst(pow[nd], 32)))) {
			break
		}
		nd++
	}
	s := Str{S: strings.Repeat("?", nd), Sym: make([]*Term, nd)}
	for i := 0; i < nd; i++ {
		d := tBin("bvurem", 32, tBin("bvudiv", 32, t32, bvConst(pow[nd-1-i], 32)), bvConst(10, 32))
		s.Sym[i] = tBin("bvadd", 8, resize(d, 8), bvConst('0', 8))
	}
	return s
}

// strconv.ParseFloat: concrete -> real function; symbolic -> uninterpreted (value bits, error flag) per length.
func inParseFloat(m *Machine, fr *frame, fn *ssa.Function, a []Value) Value {
	s := a[0].(Str)
	bits := m.concInt(a[1])
	if s.isConc() {
		f, err := strconv.ParseFloat(s.S, bits)
		if err != nil {
			return Tuple{Float{f}, opaqueErr("strconv.ParseFloat: " + err.Error())}
		}
		return Tuple{Float{f}, Iface{}}
	}
	unsupported("strconv.ParseFloat on a symbolic string (harness must pick float inputs from a concrete seed table)")
	return nil
}

// mime.ParseMediaType: concrete -> the real function.
func inParseMediaType(m *Machine, fr *frame, fn *ssa.Function, a []Value) Value {
	s := a[0].(Str)
	if s.isConc() {
		mt, ps, err := mime.ParseMediaType(s.S)
		mp := newMap()
		for k, v := range ps {
			m.mapUpdate(mp, Str{S: k}, Str{S: v})
		}
		if err != nil {
			var nilmap *Map
			if ps != nil {
				nilmap = mp
			}
			return Tuple{Str{S: mt}, nilmap, opaqueErr("mime: " + err.Error())}
		}
		return Tuple{Str{S: mt}, mp, Iface{}}
	}
	// restricted symbolic form: "<concrete media type and params>; <key>=" followed by
	// symbolic bytes that the path condition confines to RFC 2045 token characters
	// without upper-case (attribute values keep their spelling).
	i := 0
	for i < len(s.S) && (s.Sym == nil || s.Sym[i] == nil) {
		i++
	}
	for j := i; j < len(s.S); j++ {
		if s.Sym[j] == nil {
			unsupported("mime.ParseMediaType: symbolic bytes must form the tail of the header")
		}
		b := s.Sym[j]
		tok := tOr(
			tAnd(tBin("bvuge", 0, b, bvConst('a', 8)), tBin("bvule", 0, b, bvConst('z', 8))),
			tAnd(tBin("bvuge", 0, b, bvConst('0', 8)), tBin("bvule", 0, b, bvConst('9', 8))),
			tEq(b, bvConst('.', 8)), tEq(b, bvConst('-', 8)), tEq(b, bvConst('_', 8)))
		if m.feasible(tNot(tok)) {
			unsupported("mime.ParseMediaType: symbolic tail bytes must be assumed to be [a-z0-9._-]")
		}
	}
	prefix := s.S[:i]
	if i == len(s.S) || !strings.HasSuffix(prefix, "=") {
		unsupported("mime.ParseMediaType: symbolic tail must follow '<key>='")
	}
	mt, ps, err := mime.ParseMediaType(prefix + "x")
	if err != nil {
		unsupported("mime.ParseMediaType: concrete prefix does not parse: %v", err)
	}
	eq := strings.LastIndexByte(prefix, '=')
	k := eq
	for k > 0 && prefix[k-1] != ' ' && prefix[k-1] != ';' {
		k--
	}
	key := strings.ToLower(prefix[k:eq])
	if ps[key] != "x" {
		unsupported("mime.ParseMediaType: cannot locate the symbolic parameter")
	}
	mp := newMap()
	for kk, v := range ps {
		if kk == key {
			m.mapUpdate(mp, Str{S: kk}, s.slice(i, len(s.S)))
		} else {
			m.mapUpdate(mp, Str{S: kk}, Str{S: v})
		}
	}
	return Tuple{Str{S: mt}, mp, Iface{}}
}

// httputil.DumpRequest: nondeterministic — an arbitrary error, or arbitrary dump bytes (<= 3 symbolic
// bytes); deterministic per (request, body flag) within one path, as the real function is.
func inDumpRequest(m *Machine, fr *frame, fn *ssa.Function, a []Value) Value {
	type key struct {
		p    *Value
		body bool
	}
	if m.dumpCache == nil {
		m.dumpCache = map[any]Value{}
	}
	k := key{a[0].(*Value), a[1].(Bool).B}
	if v, ok := m.dumpCache[k]; ok {
		return v
	}
	var res Value
	if m.choose(make([]*Term, 2)) == 1 {
		m.ndlog = append(m.ndlog, ndEntry{Kind: "choice", Name: "dump_err", N: 1})
		res = Tuple{[]Value(nil), opaqueErr("dump error")}
	} else {
		m.ndlog = append(m.ndlog, ndEntry{Kind: "choice", Name: "dump_err", N: 0})
		l := m.choose(make([]*Term, 4))
		s := m.newBytes("dump", l)
		m.ndlog = append(m.ndlog, ndEntry{Kind: "bytes", Name: "dump", N: l, Terms: append([]*Term{}, s.Sym...)})
		out := make([]Value, l)
		for i := range out {
			out[i] = s.at(i)
		}
		res = Tuple{out, Iface{}}
	}
	m.dumpCache[k] = res
	return res
}

// html.EscapeString: concrete -> real; symbolic -> per-byte expansion by forking on the five metacharacters.
func inEscapeString(m *Machine, fr *frame, fn *ssa.Function, a []Value) Value {
	s := a[0].(Str)
	if s.isConc() {
		return Str{S: html.EscapeString(s.S)}
	}
	var r Str
	for i := 0; i < len(s.S); i++ {
		b := s.at(i)
		if b.T == nil {
			r = concat(r, Str{S: html.EscapeString(string([]byte{byte(b.V)}))})
			continue
		}
		done := false
		for _, c := range []byte{'&', '\'', '<', '>', '"'} {
			if m.branchIn(fr, mkBool(tEq(b.T, bvConst(uint64(c), 8)))) {
				r = concat(r, Str{S: html.EscapeString(string([]byte{c}))})
				done = true
				break
			}
		}
		if !done {
			r = concat(r, s.slice(i, i+1))
		}
	}
	return r
}

// depGlobal provides values for the few dependency-package globals that mux code reads.
func (m *Machine) depGlobal(g *ssa.Global) *Value {
	name := g.Pkg.Pkg.Path() + "." + g.Name()
	if v, ok := m.ex.depGlobals[name]; ok {
		return v
	}
	return nil
}

// regexp.QuoteMeta: concrete -> real; symbolic bytes fork on membership in the special set.
func inQuoteMeta(m *Machine, fr *frame, fn *ssa.Function, a []Value) Value {
	s := a[0].(Str)
	if s.isConc() {
		return Str{S: regexp.QuoteMeta(s.S)}
	}
	const special = "\\.+*?()|[]{}^$"
	var r Str
	for i := 0; i < len(s.S); i++ {
		b := s.at(i)
		if b.T == nil {
			r = concat(r, Str{S: regexp.QuoteMeta(string([]byte{byte(b.V)}))})
			continue
		}
		var alts []*Term
		for k := 0; k < len(special); k++ {
			alts = append(alts, tEq(b.T, bvConst(uint64(special[k]), 8)))
		}
		if m.branchIn(fr, mkBool(tOr(alts...))) {
			r = concat(r, Str{S: "\\"})
		}
		r = concat(r, s.slice(i, i+1))
	}
	return r
}

// sync.Once: the function runs on the first Do of a path (single logical thread at a time).
func inOnceDo(m *Machine, fr *frame, fn *ssa.Function, a []Value) Value {
	p := a[0].(*Value)
	if m.onces == nil {
		m.onces = map[*Value]bool{}
	}
	if m.onces[p] {
		return nil
	}
	m.onces[p] = true
	return m.callValue(fr, a[1], nil)
}

// sync.Map: modelled as an engine map per object (keys compared like map keys).
func (m *Machine) syncMap(p Value) *Map {
	ptr := p.(*Value)
	if m.syncMaps == nil {
		m.syncMaps = map[*Value]*Map{}
	}
	mp := m.syncMaps[ptr]
	if mp == nil {
		mp = newMap()
		m.syncMaps[ptr] = mp
	}
	return mp
}

func inSyncMapLoad(m *Machine, fr *frame, fn *ssa.Function, a []Value) Value {
	mp := m.syncMap(a[0])
	if i := m.mapFind(mp, a[1]); i >= 0 {
		return Tuple{mp.vals[i], Bool{B: true}}
	}
	return Tuple{Iface{}, Bool{B: false}}
}

func inSyncMapStore(m *Machine, fr *frame, fn *ssa.Function, a []Value) Value {
	m.mapUpdate(m.syncMap(a[0]), a[1], a[2])
	return nil
}

func inSyncMapLoadOrStore(m *Machine, fr *frame, fn *ssa.Function, a []Value) Value {
	mp := m.syncMap(a[0])
	if i := m.mapFind(mp, a[1]); i >= 0 {
		return Tuple{mp.vals[i], Bool{B: true}}
	}
	m.mapUpdate(mp, a[1], a[2])
	return Tuple{a[2], Bool{B: false}}
}

func inSyncMapDelete(m *Machine, fr *frame, fn *ssa.Function, a []Value) Value {
	m.mapDelete(m.syncMap(a[0]), a[1])
	return nil
}

// ToUpper: exact for ASCII bytes (the mirror image of ToLower above).
func inToUpper(m *Machine, fr *frame, fn *ssa.Function, a []Value) Value {
	s := a[0].(Str)
	if s.isConc() {
		return Str{S: strings.ToUpper(s.S)}
	}
	out := Str{S: s.S, Sym: make([]*Term, len(s.S))}
	bs := []byte(s.S)
	for i := range bs {
		if s.Sym[i] == nil {
			if bs[i] >= 0x80 {
				unsupported("strings.ToUpper on non-ASCII concrete byte mixed with symbolic bytes")
			}
			if bs[i] >= 'a' && bs[i] <= 'z' {
				bs[i] -= 32
			}
			continue
		}
		b := s.Sym[i]
		m.assumeASCII(b, "strings.ToUpper")
		lo := tAnd(tBin("bvuge", 0, b, bvConst('a', 8)), tBin("bvule", 0, b, bvConst('z', 8)))
		out.Sym[i] = tIte(lo, tBin("bvsub", 8, b, bvConst(32, 8)), b)
		bs[i] = '?'
	}
	out.S = string(bs)
	return out
}

// ---- sync/atomic: sequentially consistent cells; in threaded runs every operation is a
// scheduling point and carries release/acquire happens-before edges ----

func atomicCell(p Value) *Value {
	ptr, ok := p.(*Value)
	if !ok || ptr == nil {
		unsupported("atomic operation on %T", p)
	}
	// atomic.Int32 & co are structs whose last field holds the value; plain *int32 cells are used directly
	if st, ok := (*ptr).(Struct); ok {
		return &st[len(st)-1]
	}
	return ptr
}

func (m *Machine) atomicSync(cell *Value, write bool) {
	p := m.par
	if p == nil || p.cur == nil {
		return
	}
	t := p.cur
	m.yield(nil)
	vc := p.pools[cell]
	if vc == nil {
		vc = vclock{}
		p.pools[cell] = vc
	}
	t.vc.join(vc)
	if write {
		vc.join(t.vc)
		t.vc[t.id]++
	}
}

func inAtomicLoad(m *Machine, fr *frame, fn *ssa.Function, a []Value) Value {
	c := atomicCell(a[0])
	m.atomicSync(c, false)
	return copyVal(*c)
}

func inAtomicStore(m *Machine, fr *frame, fn *ssa.Function, a []Value) Value {
	c := atomicCell(a[0])
	m.atomicSync(c, true)
	*c = copyVal(a[1])
	return nil
}

func inAtomicSwap(m *Machine, fr *frame, fn *ssa.Function, a []Value) Value {
	c := atomicCell(a[0])
	m.atomicSync(c, true)
	old := copyVal(*c)
	*c = copyVal(a[1])
	return old
}

func inAtomicAdd(m *Machine, fr *frame, fn *ssa.Function, a []Value) Value {
	c := atomicCell(a[0])
	m.atomicSync(c, true)
	t := fn.Signature.Results().At(0).Type()
	*c = m.binop(fr, nil, token.ADD, t, *c, a[1])
	return copyVal(*c)
}

func inAtomicCAS(m *Machine, fr *frame, fn *ssa.Function, a []Value) Value {
	c := atomicCell(a[0])
	m.atomicSync(c, true)
	if m.branchIn(fr, m.equal(*c, a[1])) {
		*c = copyVal(a[2])
		return Bool{B: true}
	}
	return Bool{B: false}
}

func init() {
	for _, t := range []string{"Int32", "Int64", "Uint32", "Uint64", "Bool", "Uintptr", "Pointer[T]", "Value"} {
		recv := "(*sync/atomic." + t + ")."
		intrinsics[recv+"Load"] = inAtomicLoad
		intrinsics[recv+"Store"] = inAtomicStore
		intrinsics[recv+"Swap"] = inAtomicSwap
		intrinsics[recv+"CompareAndSwap"] = inAtomicCAS
		if t != "Bool" && t != "Pointer[T]" && t != "Value" {
			intrinsics[recv+"Add"] = inAtomicAdd
		}
	}
	for _, t := range []string{"Int32", "Int64", "Uint32", "Uint64", "Uintptr", "Pointer"} {
		intrinsics["sync/atomic.Load"+t] = inAtomicLoad
		intrinsics["sync/atomic.Store"+t] = inAtomicStore
		intrinsics["sync/atomic.Swap"+t] = inAtomicSwap
		intrinsics["sync/atomic.CompareAndSwap"+t] = inAtomicCAS
		if t != "Pointer" {
			intrinsics["sync/atomic.Add"+t] = inAtomicAdd
		}
	}
}

// reCompile records one decision of the uninterpreted regexp.Compile on a symbolic expression.
type reCompile struct {
	s  Str
	ok bool
}

// reCompilesRealistic: under the model, does every "compiles / does not compile" decision taken
// on this path agree with the real regexp.Compile? (A witness or a counterexample that assumes
// otherwise cannot be replayed natively.)
func (m *Machine) reCompilesRealistic(model map[string]uint64) bool {
	for _, rc := range m.reCompiles {
		bs := []byte(rc.s.S)
		for i := range bs {
			if rc.s.Sym != nil && rc.s.Sym[i] != nil {
				v, ok := rc.s.Sym[i].eval(model)
				if !ok {
					return false
				}
				bs[i] = byte(v)
			}
		}
		_, err := regexp.Compile(string(bs))
		if (err == nil) != rc.ok {
			return false
		}
	}
	return true
}

// assumeASCII restricts a symbolic byte to < 0x80 for the rest of the path. The case-mapping and
// space-trimming models are exact for ASCII only; the non-ASCII part of the input space is left
// unexplored at this point (an under-approximation that is counted and reported in the evidence,
// never a source of alarms).
func (m *Machine) assumeASCII(b *Term, who string) {
	hi := tBin("bvuge", 0, b, bvConst(0x80, 8))
	if ans, dec := m.quickFeasible(hi); dec && !ans {
		return
	}
	if !m.feasible(hi) {
		return
	}
	lo := tNot(hi)
	if !m.feasible(lo) {
		panic(abortPath{"non-ASCII byte in " + who + " (outside the model)"})
	}
	m.ex.noteAssumed(who + ": non-ASCII bytes not explored")
	m.addPC(lo)
}

// FindString / FindStringSubmatch: substrings cut according to the match positions.
func inReFindString(m *Machine, fr *frame, fn *ssa.Function, a []Value) Value {
	re := reOf(a[0])
	s := a[1].(Str)
	var loc []int
	if s.isConc() {
		loc = re.FindStringSubmatchIndex(s.S)
	} else {
		loc = m.reSearch(re, s)
	}
	sub := fn.Name() == "FindStringSubmatch"
	if loc == nil {
		if sub {
			return []Value(nil)
		}
		return Str{}
	}
	if !sub {
		return s.slice(loc[0], loc[1])
	}
	out := make([]Value, len(loc)/2)
	for i := range out {
		if loc[2*i] >= 0 {
			out[i] = s.slice(loc[2*i], loc[2*i+1])
		} else {
			out[i] = Str{}
		}
	}
	return out
}

// nativeRegexpCall: any other method of *regexp.Regexp with concrete arguments is called on the
// real object through reflection; results of simple types are converted back.
func (m *Machine) nativeRegexpCall(fn *ssa.Function, args []Value) (Value, bool) {
	if fn.Signature.Recv() == nil || len(args) == 0 {
		return nil, false
	}
	p, ok := args[0].(*Value)
	if !ok || p == nil {
		return nil, false
	}
	nv, ok := (*p).(Native)
	if !ok {
		return nil, false
	}
	re, ok := nv.X.(*regexp.Regexp)
	if !ok || re == nil {
		return nil, false
	}
	meth := reflect.ValueOf(re).MethodByName(fn.Name())
	if !meth.IsValid() {
		return nil, false
	}
	var in []reflect.Value
	for _, a := range args[1:] {
		switch x := a.(type) {
		case Str:
			if !x.isConc() {
				unsupported("(*regexp.Regexp).%s on a symbolic string", fn.Name())
			}
			in = append(in, reflect.ValueOf(x.S))
		case Int:
			if x.T != nil {
				unsupported("(*regexp.Regexp).%s with a symbolic integer", fn.Name())
			}
			in = append(in, reflect.ValueOf(int(int64(x.V))))
		default:
			unsupported("(*regexp.Regexp).%s: argument of type %T", fn.Name(), a)
		}
	}
	if meth.Type().NumIn() != len(in) {
		return nil, false
	}
	out := meth.Call(in)
	conv := func(v reflect.Value) Value {
		switch v.Kind() {
		case reflect.String:
			return Str{S: v.String()}
		case reflect.Int:
			return Int{V: uint64(v.Int())}
		case reflect.Bool:
			return Bool{B: v.Bool()}
		case reflect.Slice:
			if v.IsNil() {
				return []Value(nil)
			}
			r := make([]Value, v.Len())
			for i := range r {
				e := v.Index(i)
				switch e.Kind() {
				case reflect.String:
					r[i] = Str{S: e.String()}
				case reflect.Int:
					r[i] = Int{V: uint64(e.Int())}
				default:
					unsupported("(*regexp.Regexp).%s: result element kind %s", fn.Name(), e.Kind())
				}
			}
			return r
		}
		unsupported("(*regexp.Regexp).%s: result kind %s", fn.Name(), v.Kind())
		return nil
	}
	switch len(out) {
	case 0:
		return nil, true
	case 1:
		return conv(out[0]), true
	}
	t := make(Tuple, len(out))
	for i := range out {
		t[i] = conv(out[i])
	}
	return t, true
}

// ---- internal/bytealg: the assembly primitives the standard library bottoms out in ----

func asStr(v Value) Str {
	switch x := v.(type) {
	case Str:
		return x
	case []Value:
		return bytesToStr(x)
	}
	unsupported("bytealg: argument of type %T", v)
	return Str{}
}

func init() {
	idxByte := func(m *Machine, fr *frame, fn *ssa.Function, a []Value) Value {
		return inIndexByte(m, fr, fn, []Value{asStr(a[0]), a[1]})
	}
	idx := func(m *Machine, fr *frame, fn *ssa.Function, a []Value) Value {
		return inIndex(m, fr, fn, []Value{asStr(a[0]), asStr(a[1])})
	}
	cnt := func(m *Machine, fr *frame, fn *ssa.Function, a []Value) Value {
		c := a[1].(Int)
		var sep Str
		if c.T == nil {
			sep = Str{S: string([]byte{byte(c.V)})}
		} else {
			sep = Str{S: "?", Sym: []*Term{c.T}}
		}
		return inCount(m, fr, fn, []Value{asStr(a[0]), sep})
	}
	// math/bits: exact on concrete words; a symbolic word is concretised (forks over its feasible values)
	bitsFn := func(name string, f func(x uint64) int) {
		intrinsics["math/bits."+name] = func(m *Machine, fr *frame, fn *ssa.Function, a []Value) Value {
			x := a[0].(Int)
			v := x.V
			if x.T != nil {
				v = uint64(m.concIntT(fr, x, false))
			}
			return Int{V: uint64(f(v))}
		}
	}
	bitsFn("TrailingZeros", func(x uint64) int { return bits.TrailingZeros64(x) })
	bitsFn("TrailingZeros64", func(x uint64) int { return bits.TrailingZeros64(x) })
	bitsFn("TrailingZeros32", func(x uint64) int { return bits.TrailingZeros32(uint32(x)) })
	bitsFn("TrailingZeros16", func(x uint64) int { return bits.TrailingZeros16(uint16(x)) })
	bitsFn("TrailingZeros8", func(x uint64) int { return bits.TrailingZeros8(uint8(x)) })
	bitsFn("LeadingZeros", func(x uint64) int { return bits.LeadingZeros64(x) })
	bitsFn("LeadingZeros64", func(x uint64) int { return bits.LeadingZeros64(x) })
	bitsFn("LeadingZeros32", func(x uint64) int { return bits.LeadingZeros32(uint32(x)) })
	bitsFn("Len", func(x uint64) int { return bits.Len64(x) })
	bitsFn("Len64", func(x uint64) int { return bits.Len64(x) })
	bitsFn("Len32", func(x uint64) int { return bits.Len32(uint32(x)) })
	bitsFn("Len8", func(x uint64) int { return bits.Len8(uint8(x)) })
	bitsFn("OnesCount", func(x uint64) int { return bits.OnesCount64(x) })
	bitsFn("OnesCount64", func(x uint64) int { return bits.OnesCount64(x) })
	bitsFn("OnesCount32", func(x uint64) int { return bits.OnesCount32(uint32(x)) })
	bitsFn("OnesCount8", func(x uint64) int { return bits.OnesCount8(uint8(x)) })
	intrinsics["internal/bytealg.IndexByteString"] = idxByte
	intrinsics["internal/bytealg.IndexByte"] = idxByte
	intrinsics["internal/bytealg.IndexString"] = idx
	intrinsics["internal/bytealg.Index"] = idx
	intrinsics["internal/bytealg.CountString"] = cnt
	intrinsics["internal/bytealg.Count"] = cnt
	intrinsics["internal/bytealg.Equal"] = func(m *Machine, fr *frame, fn *ssa.Function, a []Value) Value {
		return mkBool(strEq(asStr(a[0]), asStr(a[1])))
	}
	intrinsics["bytes.Equal"] = intrinsics["internal/bytealg.Equal"]
	intrinsics["internal/bytealg.Compare"] = func(m *Machine, fr *frame, fn *ssa.Function, a []Value) Value {
		x, y := asStr(a[0]), asStr(a[1])
		if m.branchIn(fr, mkBool(strEq(x, y))) {
			return Int{V: 0}
		}
		if m.branchIn(fr, mkBool(strCmp(token.LSS, x, y))) {
			return Int{V: ^uint64(0)}
		}
		return Int{V: 1}
	}
	intrinsics["strings.Compare"] = intrinsics["internal/bytealg.Compare"]
	intrinsics["internal/bytealg.LastIndexByteString"] = func(m *Machine, fr *frame, fn *ssa.Function, a []Value) Value {
		return inLastIndexByte(m, fr, fn, []Value{asStr(a[0]), a[1]})
	}
	intrinsics["internal/bytealg.LastIndexByte"] = intrinsics["internal/bytealg.LastIndexByteString"]
	intrinsics["internal/bytealg.MakeNoZero"] = func(m *Machine, fr *frame, fn *ssa.Function, a []Value) Value {
		n := m.concInt(a[0])
		out := make([]Value, n)
		for i := range out {
			out[i] = Int{}
		}
		return out
	}
}

func init() {
	dec := func(m *Machine, fr *frame, fn *ssa.Function, a []Value) Value {
		s := asStr(a[0])
		if len(s.S) == 0 {
			return Tuple{Int{V: 0xFFFD}, Int{V: 0}}
		}
		r, w := m.decodeRune(s, 0)
		return Tuple{r, Int{V: uint64(w)}}
	}
	intrinsics["unicode/utf8.DecodeRune"] = dec
	intrinsics["unicode/utf8.DecodeRuneInString"] = dec
}
