package main

import (
	"golang.org/x/tools/go/ssa"
)

type vclock map[int]int

func (a vclock) join(b vclock) {
	for k, v := range b {
		if v > a[k] {
			a[k] = v
		}
	}
}
func (a vclock) clone() vclock {
	c := vclock{}
	for k, v := range a {
		c[k] = v
	}
	return c
}

type thread struct {
	id      int
	vc      vclock
	resume  chan bool // true = continue, false = kill
	done    bool
	waitFor func() bool // nil = runnable; else runnable iff waitFor()
	result  any         // panic payload to re-raise in scheduler
}

type access struct {
	th    int
	clock int
	where string
}

type locState struct {
	lastWrite *access
	reads     map[int]*access
}

type rwState struct {
	writer  *thread
	pending map[*thread]bool // writers that have called Lock and wait
	readers map[*thread]int
	relW    vclock // released by writers
	relR    vclock // released by readers
}

type parState struct {
	threads []*thread
	cur     *thread
	yielded chan *thread
	locs    map[any]*locState
	locks   map[*Value]*rwState
	pools   map[*Value]vclock // release clocks of sync.Pool objects and atomic cells
	races   map[string]bool
}

func (p *parState) kill() {
	for _, t := range p.threads {
		if !t.done {
			t.resume <- false
			<-p.yielded
		}
	}
}

func (m *Machine) killThreads() {
	if m.par != nil {
		m.par.kill()
		m.par = nil
	}
}

// poolSync: sync.Pool Put happens-before the Get that returns the object.
func (m *Machine) poolSync(pool *Value, put bool) {
	p := m.par
	if p == nil || p.cur == nil {
		return
	}
	t := p.cur
	m.yield(nil)
	if put {
		vc := p.pools[pool]
		if vc == nil {
			vc = vclock{}
			p.pools[pool] = vc
		}
		vc.join(t.vc)
		t.vc[t.id]++
	} else if vc := p.pools[pool]; vc != nil {
		t.vc.join(vc)
	}
}

func (m *Machine) access(loc any, write bool, fr *frame, in ssa.Instruction) {
	p := m.par
	if p == nil || p.cur == nil {
		return
	}
	t := p.cur
	ls := p.locs[loc]
	if ls == nil {
		ls = &locState{reads: map[int]*access{}}
		p.locs[loc] = ls
	}
	w := m.where(fr, in)
	race := func(other *access, kind string) {
		a, b := other.where, w
		if a > b {
			a, b = b, a
		}
		key := a + " <-> " + b
		if !p.races[key] {
			p.races[key] = true
			m.violate("data race", key, nil)
		}
	}
	if lw := ls.lastWrite; lw != nil && lw.th != t.id && lw.clock > t.vc[lw.th] {
		if write {
			race(lw, "write/write")
		} else {
			race(lw, "write/read")
		}
	}
	if write {
		for _, r := range ls.reads {
			if r.th != t.id && r.clock > t.vc[r.th] {
				race(r, "read/write")
			}
		}
		ls.lastWrite = &access{t.id, t.vc[t.id], w}
		ls.reads = map[int]*access{}
	} else {
		ls.reads[t.id] = &access{t.id, t.vc[t.id], w}
	}
}

// yield hands control back to the scheduler (called on a thread goroutine).
func (m *Machine) yield(wait func() bool) {
	p := m.par
	if p == nil || p.cur == nil {
		return
	}
	t := p.cur
	t.waitFor = wait
	p.yielded <- t
	if !<-t.resume {
		panic(abortPath{"thread killed"})
	}
	t.waitFor = nil
}

func inPar(m *Machine, fr *frame, fn *ssa.Function, a []Value) Value {
	if m.par != nil {
		unsupported("nested Par")
	}
	p := &parState{yielded: make(chan *thread), locs: map[any]*locState{}, locks: map[*Value]*rwState{}, pools: map[*Value]vclock{}, races: map[string]bool{}}
	m.par = p
	parent := vclock{0: 1}
	for i, f := range a[0].([]Value) {
		t := &thread{id: i + 1, vc: parent.clone(), resume: make(chan bool)}
		t.vc[t.id] = 1
		p.threads = append(p.threads, t)
		fv := f
		go func() {
			defer func() {
				r := recover()
				t.done = true
				t.result = r
				p.yielded <- t
			}()
			if !<-t.resume {
				panic(abortPath{"thread killed"})
			}
			m.callValue(nil, fv, nil)
		}()
	}
	for {
		var run []*thread
		alive := 0
		for _, t := range p.threads {
			if t.done {
				continue
			}
			alive++
			if t.waitFor == nil || t.waitFor() {
				run = append(run, t)
			}
		}
		if alive == 0 {
			break
		}
		if len(run) == 0 {
			m.violate("deadlock", m.where(fr, nil), nil)
			panic(abortPath{"deadlock"})
		}
		d := 0
		if len(run) > 1 {
			d = m.choose(make([]*Term, len(run)))
		}
		t := run[d]
		p.cur = t
		t.resume <- true
		y := <-p.yielded
		p.cur = nil
		if y.done && y.result != nil {
			// a panic inside a thread: engine-level aborts pass through; a Go panic in a
			// goroutine crashes the process, which the harness cannot recover.
			if gp, ok := y.result.(goPanic); ok {
				msg := "value"
				if i, ok := gp.v.(Iface); ok {
					if s, ok := i.V.(Str); ok {
						msg = s.show()
					}
				}
				m.violate("uncaught panic in goroutine: "+msg, gp.site, nil)
				panic(abortPath{"panic in thread"})
			}
			panic(y.result)
		}
	}
	m.par = nil
	return nil
}

func (m *Machine) rw(p *Value) *rwState {
	s := m.par.locks[p]
	if s == nil {
		s = &rwState{readers: map[*thread]int{}, pending: map[*thread]bool{}, relW: vclock{}, relR: vclock{}}
		m.par.locks[p] = s
	}
	return s
}

func inLock(m *Machine, fr *frame, fn *ssa.Function, a []Value) Value {
	if m.par == nil || m.par.cur == nil {
		return nil
	}
	s := m.rw(a[0].(*Value))
	t := m.par.cur
	// a writer that has called Lock blocks new readers until it has had its turn (sync.RWMutex:
	// "a blocked Lock call excludes new readers from acquiring the lock")
	s.pending[t] = true
	m.yield(func() bool { return s.writer == nil && len(s.readers) == 0 })
	delete(s.pending, t)
	s.writer = t
	t.vc.join(s.relW)
	t.vc.join(s.relR)
	return nil
}
func inUnlock(m *Machine, fr *frame, fn *ssa.Function, a []Value) Value {
	if m.par == nil || m.par.cur == nil {
		return nil
	}
	s := m.rw(a[0].(*Value))
	t := m.par.cur
	s.writer = nil
	s.relW = t.vc.clone()
	t.vc[t.id]++
	m.yield(nil)
	return nil
}
func inRLock(m *Machine, fr *frame, fn *ssa.Function, a []Value) Value {
	if m.par == nil || m.par.cur == nil {
		return nil
	}
	s := m.rw(a[0].(*Value))
	t := m.par.cur
	m.yield(func() bool { return s.writer == nil && len(s.pending) == 0 })
	s.readers[t]++
	t.vc.join(s.relW)
	return nil
}
func inRUnlock(m *Machine, fr *frame, fn *ssa.Function, a []Value) Value {
	if m.par == nil || m.par.cur == nil {
		return nil
	}
	s := m.rw(a[0].(*Value))
	t := m.par.cur
	s.readers[t]--
	if s.readers[t] == 0 {
		delete(s.readers, t)
	}
	s.relR.join(t.vc)
	t.vc[t.id]++
	m.yield(nil)
	return nil
}
