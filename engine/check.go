package main

import (
	"encoding/json"
	"flag"
	"fmt"
	"os"
	"path/filepath"
	"runtime"
	"sort"
	"strconv"
	"strings"
	"time"
)

type runSpec struct {
	dir      string
	entry    string
	quick    []int
	thorough []int
	mapRev   bool // additionally run with reversed map iteration order
}

type propSpec struct {
	id      string
	runs    []runSpec
	covers  []string // cover points that must be reached (vacuity guard)
	bounds  string   // quick bounds
	boundsT string   // thorough bounds
	outside string   // what lies outside the claim
	assume  []string
	stubs   []string
	race    bool // violations are replayed under the race detector
}

type knownFinding struct {
	Property string `json:"property"`
	Label    string `json:"label"`
	Site     string `json:"site"`
	Status   string `json:"status"` // known | fixed
	Commit   string `json:"commit,omitempty"`
	What     string `json:"what"`
}

type replayFile struct {
	Property string    `json:"property"`
	Dir      string    `json:"dir"`
	Label    string    `json:"label"`
	Site     string    `json:"site"`
	Entry    string    `json:"entry"`
	Arg      int       `json:"arg"`
	Values   []NDValue `json:"values"`
	Race     bool      `json:"race,omitempty"`
	Shown    string    `json:"shown"`
}

// loadKnown parses /verif/known_findings.txt:
//
//	known: property=<id> | <assertion label> | <site> | <what fails>
//	fixed: property=<id> <commit> <what failed>
//
// Only "known:" lines suppress anything, and only the exact (property, label,
// site) they name; "fixed:" lines are a record.
func loadKnown(root string) []knownFinding {
	b, err := os.ReadFile(filepath.Join(root, "known_findings.txt"))
	if err != nil {
		return nil
	}
	var out []knownFinding
	for _, line := range strings.Split(string(b), "\n") {
		line = strings.TrimSpace(line)
		if !strings.HasPrefix(line, "known:") {
			continue
		}
		parts := strings.Split(strings.TrimPrefix(line, "known:"), " | ")
		if len(parts) != 4 || !strings.HasPrefix(strings.TrimSpace(parts[0]), "property=") {
			fmt.Println("INCONCLUSIVE: malformed line in known_findings.txt:", line)
			os.Exit(2)
		}
		out = append(out, knownFinding{Property: strings.TrimPrefix(strings.TrimSpace(parts[0]), "property="), Label: strings.TrimSpace(parts[1]),
			Site: strings.TrimSpace(parts[2]), What: strings.TrimSpace(parts[3]), Status: "known"})
	}
	return out
}

func cmdCheck(args []string) {
	fs := flag.NewFlagSet("check", flag.ExitOnError)
	prop := fs.String("prop", "", "property id")
	tier := fs.String("tier", "", "quick|thorough")
	repo := fs.String("repo", "/repo", "repository")
	workers := fs.Int("j", runtime.NumCPU(), "workers")
	replay := fs.String("replay", "", "replay file")
	fs.Parse(args)
	if *replay != "" {
		cmdReplay([]string{"-file", *replay, "-repo", *repo})
		return
	}
	if r := os.Getenv("VERIF_REPO"); r != "" && *repo == "/repo" {
		*repo = r // development aid: run the checks against a scratch worktree
	}
	if *tier == "" {
		*tier = os.Getenv("VERIF_TIER")
	}
	if *tier != "thorough" {
		*tier = "quick"
	}
	if s := os.Getenv("VERIF_WORKERS"); s != "" { // development aid: leave cores to other work
		if n, err := strconv.Atoi(s); err == nil && n > 0 {
			*workers = n
		}
	}
	seed := 0
	if s := os.Getenv("VERIF_SEED"); s != "" {
		seed, _ = strconv.Atoi(s)
	}
	var spec *propSpec
	for i := range propSpecs {
		if propSpecs[i].id == *prop {
			spec = &propSpecs[i]
		}
	}
	if spec == nil {
		fmt.Println("unknown property", *prop)
		os.Exit(2)
	}
	root := verifRoot()
	evDir := filepath.Join(root, "evidence")
	rpDir := filepath.Join(root, "replays")
	if d := os.Getenv("VERIF_EVIDENCE_DIR"); d != "" { // development aid: keep /verif/evidence untouched
		evDir, rpDir = d, filepath.Join(d, "replays")
	}
	t0 := time.Now()
	dirSet := map[string]bool{}
	for _, r := range spec.runs {
		dirSet[r.dir] = true
	}
	var dirs []string
	for d := range dirSet {
		dirs = append(dirs, d)
	}
	sort.Strings(dirs)
	l := loadRepo(*repo, dirs)
	ex := newExplorer(l, *workers)
	if *tier == "quick" {
		ex.maxLeaves, ex.leafSample = 12, 41+seed%7
	} else {
		ex.maxLeaves, ex.leafSample = 40, 97+seed%11
	}

	var all []*RunStats
	var inconclusive []string
	type vref struct {
		v   *Violation
		dir string
	}
	var vios []vref
	leavesByDir := map[string][]Leaf{}
	cover := map[string]int{}
	assumed := map[string]int{}
	fnSteps := map[string]int{}
	fnBranches := map[string]int{}
	var scripts, answers []string
	tot := RunStats{}
	for _, r := range spec.runs {
		argsList := r.quick
		if *tier == "thorough" && len(r.thorough) > 0 {
			argsList = r.thorough
		}
		revs := []bool{false}
		if r.mapRev {
			revs = append(revs, true)
		}
		for _, rev := range revs {
			for _, a := range argsList {
				ex.mapReverse = rev
				st := ex.run(l.pkgs[r.dir], r.entry, a)
				all = append(all, st)
				tot.Paths += st.Paths
				tot.Decisions += st.Decisions
				tot.Steps += st.Steps
				tot.Forks += st.Forks
				tot.Asserts += st.Asserts
				tot.FilterHits += st.FilterHits
				tot.Solver.Queries += st.Solver.Queries
				tot.Solver.Sat += st.Solver.Sat
				tot.Solver.Unsat += st.Solver.Unsat
				tot.Solver.Unknown += st.Solver.Unknown
				tot.Solver.Errors += st.Solver.Errors
				tot.Solver.Time += st.Solver.Time
				for k, n := range st.Cover {
					cover[k] += n
				}
				for k, n := range st.FnSteps {
					fnSteps[k] += n
				}
				for k, n := range st.FnBranches {
					fnBranches[k] += n
				}
				for _, v := range st.Violations {
					vios = append(vios, vref{v, r.dir})
				}
				leavesByDir[r.dir] = append(leavesByDir[r.dir], st.Leaves...)
				if len(scripts) < 60 {
					scripts = append(scripts, st.Scripts...)
					answers = append(answers, st.ScriptAnswer...)
				}
				for k, n := range st.Assumed {
					assumed[k] += n
				}
				for msg, n := range st.EngineErrs {
					inconclusive = append(inconclusive, fmt.Sprintf("%s(%d): engine error x%d: %s", st.Entry, st.Arg, n, msg))
				}
				for msg, n := range st.Unknowns {
					inconclusive = append(inconclusive, fmt.Sprintf("%s(%d): solver unknown x%d: %s", st.Entry, st.Arg, n, msg))
				}
				if st.Truncated {
					inconclusive = append(inconclusive, fmt.Sprintf("%s(%d): path budget exhausted", st.Entry, st.Arg))
				}
				if st.Solver.Errors > 0 {
					inconclusive = append(inconclusive, fmt.Sprintf("%s(%d): %d solver error lines", st.Entry, st.Arg, st.Solver.Errors))
				}
			}
		}
	}
	for _, c := range spec.covers {
		if cover[c] == 0 {
			inconclusive = append(inconclusive, "vacuity guard: cover point never reached: "+c)
		}
	}

	// native validation of sampled witness paths (translation validation of the encoder)
	validated := 0
	for _, d := range dirs {
		lv := leavesByDir[d]
		if len(lv) == 0 {
			continue
		}
		if len(lv) > 400 {
			lv = lv[:400]
		}
		bad := validateLeaves(l, *repo, d, lv)
		validated += len(lv) - len(bad)
		for _, b := range bad {
			inconclusive = append(inconclusive, "native validation mismatch: "+b)
		}
	}

	// cross-solver agreement on sampled assertion queries
	cross := 0
	crossN := 6
	if *tier == "thorough" {
		crossN = 40
	}
	for i := 0; i < len(scripts) && i < crossN; i++ {
		for _, bin := range []string{"z3-new", "cvc5"} {
			got := oneShot(bin, scripts[i])
			if got != answers[i] {
				inconclusive = append(inconclusive, fmt.Sprintf("cross-solver disagreement: z3 said %s, %s said %s", answers[i], bin, got))
			}
			cross++
		}
	}
	if len(scripts) > 0 {
		os.MkdirAll(evDir, 0o755)
		os.WriteFile(filepath.Join(evDir, spec.id+".smt2"), []byte("; sample of an assertion query discharged by this run (expected: "+answers[0]+")\n"+scripts[0]), 0o644)
	}

	// native replay of every violation; only reproduced ones are reported
	known := loadKnown(root)
	os.MkdirAll(rpDir, 0o755)
	newViolations := 0
	knownHits := map[int]bool{}
	byDir := map[string][]*Violation{}
	for _, vr := range vios {
		byDir[vr.dir] = append(byDir[vr.dir], vr.v)
	}
	nrep := 0
	var vioSamples []any
	for _, d := range dirs {
		vs := byDir[d]
		if len(vs) == 0 {
			continue
		}
		var plain, threaded []*Violation
		for _, v := range vs {
			if v.Threads || spec.race {
				threaded = append(threaded, v)
			} else {
				plain = append(plain, v)
			}
		}
		groups := []struct {
			vs   []*Violation
			race bool
		}{{plain, false}, {threaded, true}}
		for _, g := range groups {
			if len(g.vs) == 0 {
				continue
			}
			var rs []bool
			if g.race {
				rs = replayRace(l, *repo, d, g.vs)
			} else {
				nr := replayNative(l, *repo, d, violationCases(g.vs), false)
				if nr.Err != "" {
					inconclusive = append(inconclusive, "native replay failed: "+nr.Err+" "+tail(nr.Output, 1500))
					continue
				}
				for i, v := range g.vs {
					rs = append(rs, reproduced(&nr.Results[i], v.Label))
				}
				// a witness that does not reproduce may have alternatives with other discrete choices
				for i, v := range g.vs {
					if rs[i] || len(v.Alt) == 0 {
						continue
					}
					nr2 := replayNative(l, *repo, d, violationCases(v.Alt), false)
					if nr2.Err != "" {
						continue
					}
					for k, a := range v.Alt {
						if reproduced(&nr2.Results[k], a.Label) {
							v.Values, rs[i] = a.Values, true
							break
						}
					}
				}
			}
			for i, v := range g.vs {
				if !rs[i] {
					inconclusive = append(inconclusive, fmt.Sprintf("solver model for %q @ %s did not reproduce natively (%s(%d) %s)", v.Label, v.Site, v.Entry, v.Arg, showValues(v.Values)))
					continue
				}
				matched := false
				for k, kf := range known {
					if kf.Property == spec.id && kf.Status == "known" && kf.Label == v.Label && kf.Site == v.Site {
						knownHits[k] = true
						matched = true
					}
				}
				if matched {
					continue
				}
				nrep++
				rf := replayFile{Property: spec.id, Dir: d, Label: v.Label, Site: v.Site, Entry: v.Entry, Arg: v.Arg, Values: v.Values, Race: g.race, Shown: showValues(v.Values)}
				path := filepath.Join(rpDir, fmt.Sprintf("%s-%d.json", spec.id, nrep))
				os.WriteFile(path, mustJSON(rf), 0o644)
				fmt.Printf("VIOLATION property=%s replay=%s\n", spec.id, path)
				fmt.Printf("  assertion %q at %s fails for %s(%d) with %s (x%d paths)\n", v.Label, v.Site, v.Entry, v.Arg, showValues(v.Values), v.Count)
				newViolations++
				vioSamples = append(vioSamples, map[string]any{"label": v.Label, "site": v.Site, "entry": v.Entry, "arg": v.Arg, "input": showValues(v.Values)})
			}
		}
	}
	for k, kf := range known {
		if kf.Property == spec.id && kf.Status == "known" {
			if knownHits[k] {
				fmt.Printf("KNOWN-FINDING: property=%s %s [%s @ %s]\n", spec.id, kf.What, kf.Label, kf.Site)
			} else {
				fmt.Printf("note: known finding not observed in this run: %s [%s @ %s]\n", kf.What, kf.Label, kf.Site)
			}
		}
	}

	// evidence
	var samples []any
	for _, d := range dirs {
		for i, lf := range leavesByDir[d] {
			if i >= 4 {
				break
			}
			samples = append(samples, map[string]any{"harness": fmt.Sprintf("%s(%d)", lf.Entry, lf.Arg), "witness_input": showValues(lf.Values), "observed": lf.Obs, "cover": lf.Covers, "path_condition_conjuncts": lf.PCLen})
		}
	}
	samples = append(samples, vioSamples...)
	if len(samples) == 0 {
		samples = append(samples, map[string]any{"note": "no completed path sampled"})
	}
	var runsOut []any
	for _, st := range all {
		runsOut = append(runsOut, map[string]any{"harness": fmt.Sprintf("%s(%d)", st.Entry, st.Arg), "paths": st.Paths, "symbolic_decisions": st.Decisions,
			"ssa_instructions": st.Steps, "solver_queries": st.Solver.Queries, "violations": len(st.Violations), "wall_s": round2(st.Wall.Seconds())})
	}
	isRepoFn := func(k string) bool {
		return strings.Contains(k, repoPath) && !strings.Contains(k, "ZZ") && !strings.Contains(k, ".zz") && !strings.Contains(k, "zzverif")
	}
	var encoded []string
	for _, e := range topN(fnSteps, 60, isRepoFn) {
		name := e[:strings.LastIndexByte(e, ':')]
		encoded = append(encoded, fmt.Sprintf("%s (instructions executed %s, symbolic branches %d)", strings.ReplaceAll(name, repoPath, "mux"), e[strings.LastIndexByte(e, ':')+1:], fnBranches[name]))
	}
	bounds := spec.bounds
	if *tier == "thorough" && spec.boundsT != "" {
		bounds = spec.boundsT
	}
	wall := time.Since(t0).Seconds()
	ev := map[string]any{
		"property_id": spec.id, "tier": *tier, "seed": seed, "level": "model_checking", "wall_s": round2(wall),
		"violations": newViolations,
		"assumptions": append(append([]string{}, spec.assume...),
			"go/ssa (x/tools v0.29.0) translates /repo's source faithfully; the executor's SSA semantics (validated on this run by native replay of sampled witness paths)",
			"z3 4.8.12 answers are correct (a sample of assertion queries is re-discharged with z3 5.1.0 and cvc5 1.0.3)",
			"stubs: "+strings.Join(spec.stubs, "; ")),
		"coverage": map[string]any{
			"states":                        max1(tot.Paths),
			"transitions":                   max1(tot.Decisions),
			"traces_validated_against_impl": validated,
			"samples":                       samples,
			"exhaustive":                    len(inconclusive) == 0,
			"explanation":                   "bounded symbolic execution of the go/ssa form of /repo (rebuilt from the working tree on this run): states = completed symbolic paths (each a class of inputs described by its path condition), transitions = symbolic branch decisions; every assertion and every feasibility question not settled by the syntactic byte-domain filter was a z3 query; exhaustive=true means every path inside the stated bounds was explored to its end, no solver answer was unknown and all vacuity guards were reached",
			"bounds":                        bounds,
			"outside_the_claim":             spec.outside,
			"functions_encoded":             encoded,
			"runs":                          runsOut,
			"ssa_instructions":              tot.Steps,
			"assertions_reached":            tot.Asserts,
			"solver_queries":                map[string]any{"total": tot.Solver.Queries, "sat": tot.Solver.Sat, "unsat": tot.Solver.Unsat, "unknown": tot.Solver.Unknown, "error_lines": tot.Solver.Errors, "decided_by_domain_filter": tot.FilterHits},
			"solver_time_s":                 round2(tot.Solver.Time.Seconds()),
			"solver":                        "z3 4.8.12 (persistent process per worker, push/pop)",
			"cross_solver_rechecks":         cross,
			"cover_points":                  cover,
			"required_cover_points":         spec.covers,
			"violations_replayed":           len(vios),
			"inconclusive":                  inconclusive,
			"implicit_restrictions":         assumed,
			"ssa_load_build_s":              round2(l.loadDur.Seconds()),
			"workers":                       *workers,
		},
	}
	os.MkdirAll(evDir, 0o755)
	os.WriteFile(filepath.Join(evDir, spec.id+".json"), mustJSON(ev), 0o644)

	fmt.Printf("%s %s: %d runs, %d paths, %d decisions, %d assertions reached, %d solver queries (%.1fs), %d witness paths validated natively, %.1fs wall\n",
		spec.id, *tier, len(all), tot.Paths, tot.Decisions, tot.Asserts, tot.Solver.Queries, tot.Solver.Time.Seconds(), validated, wall)
	if newViolations > 0 {
		os.Exit(1)
	}
	if len(inconclusive) > 0 {
		for i, s := range inconclusive {
			if i >= 12 {
				fmt.Printf("INCONCLUSIVE ... and %d more\n", len(inconclusive)-i)
				break
			}
			fmt.Println("INCONCLUSIVE", s)
		}
		os.Exit(2)
	}
	fmt.Printf("OK property=%s held on every path explored within: %s\n", spec.id, bounds)
}

func round2(f float64) float64 { return float64(int(f*100+0.5)) / 100 }
func max1(n int) int {
	if n < 1 {
		return 1
	}
	return n
}

// replayRace replays threaded violations natively under the race detector.
func replayRace(l *loaded, repoDir, hdir string, vs []*Violation) []bool {
	out := make([]bool, len(vs))
	for i, v := range vs {
		if v.Label == "deadlock" {
			// a deadlock needs the very interleaving the executor found: many native iterations
			// without the race detector; a hang shows as the test timeout
			var cases []replayCase
			for k := 0; k < 30000; k++ {
				cases = append(cases, replayCase{Entry: v.Entry, Arg: v.Arg, Values: v.Values})
			}
			nr := replayNativeT(l, repoDir, hdir, cases, false, "45s")
			out[i] = strings.Contains(nr.Output, "test timed out") || strings.Contains(nr.Output, "all goroutines are asleep")
			continue
		}
		// each case in its own process: a detected race or a fatal "concurrent map" error ends it
		var cases []replayCase
		for k := 0; k < 30; k++ {
			cases = append(cases, replayCase{Entry: v.Entry, Arg: v.Arg, Values: v.Values})
		}
		nr := replayNative(l, repoDir, hdir, cases, true)
		switch {
		case strings.Contains(nr.Output, "DATA RACE") || strings.Contains(nr.Output, "fatal error: concurrent map"):
			out[i] = true
		case nr.Err == "":
			for k := range nr.Results {
				if reproduced(&nr.Results[k], v.Label) {
					out[i] = true
				}
			}
		}
		if !out[i] && v.Label != "data race" {
			// a schedule-dependent functional violation: many plain iterations give the interleaving a chance
			var many []replayCase
			for k := 0; k < 20000; k++ {
				many = append(many, replayCase{Entry: v.Entry, Arg: v.Arg, Values: v.Values})
			}
			nr2 := replayNativeT(l, repoDir, hdir, many, false, "90s")
			if nr2.Err == "" {
				for k := range nr2.Results {
					if reproduced(&nr2.Results[k], v.Label) {
						out[i] = true
						break
					}
				}
			} else if strings.Contains(nr2.Output, "fatal error: concurrent map") {
				out[i] = true
			}
		}
	}
	return out
}

func cmdReplay(args []string) {
	fs := flag.NewFlagSet("replay", flag.ExitOnError)
	file := fs.String("file", "", "replay file")
	repo := fs.String("repo", "/repo", "repository")
	fs.Parse(args)
	b, err := os.ReadFile(*file)
	if err != nil {
		fmt.Println(err)
		os.Exit(2)
	}
	var rf replayFile
	if err := json.Unmarshal(b, &rf); err != nil {
		fmt.Println(err)
		os.Exit(2)
	}
	l := loadRepo(*repo, []string{rf.Dir})
	v := &Violation{Label: rf.Label, Site: rf.Site, Entry: rf.Entry, Arg: rf.Arg, Values: rf.Values}
	ok := false
	if rf.Race {
		ok = replayRace(l, *repo, rf.Dir, []*Violation{v})[0]
	} else {
		nr := replayNative(l, *repo, rf.Dir, violationCases([]*Violation{v}), false)
		if nr.Err != "" {
			fmt.Println("native run failed:", nr.Err, tail(nr.Output, 2000))
			os.Exit(2)
		}
		ok = reproduced(&nr.Results[0], rf.Label)
		fmt.Printf("native result: failed=%v panic=%q obs=%v\n", nr.Results[0].Failed, nr.Results[0].Panic, nr.Results[0].Obs)
	}
	if ok {
		fmt.Printf("REPRODUCED property=%s %q at %s with %s\n", rf.Property, rf.Label, rf.Site, rf.Shown)
		fmt.Printf("VIOLATION property=%s replay=%s\n", rf.Property, *file)
		os.Exit(1)
	}
	fmt.Println("not reproduced on this tree")
}

func cmdSelfTest(args []string) {}
