package main

func cmdCheck(args []string)    {}
func cmdReplay(args []string)   {}
func cmdSelfTest(args []string) {}
