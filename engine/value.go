package main

import (
	"fmt"
	"go/constant"
	"go/token"
	"go/types"
	"math"
	"strings"

	"golang.org/x/tools/go/ssa"
)

type Value interface{}

type Int struct {
	V uint64
	T *Term
}
type Bool struct {
	B bool
	T *Term
}
type Str struct {
	S   string
	Sym []*Term // nil or len(S); nil entries are concrete
}
type Float struct{ V float64 }
type Struct []Value
type Array []Value
type Iface struct {
	T types.Type
	V Value
}
type Closure struct {
	Fn  *ssa.Function
	Env []Value
}
type Tuple []Value
type Native struct{ X any }

// Blob is a []byte whose content is unobservable and whose length may be symbolic.
type Blob struct{ Len Int }

type Map struct {
	keys []Value
	vals []Value
	live []bool
	idx  map[any]int
	n    int
	wild func(m *Machine, key Value, commaOk bool) Value // stub maps: lookup of any key
}

type goPanic struct {
	v    Value  // a Go-level panic in the interpreted program
	site string // where it was raised (function (file:line))
}
type abortPath struct{ why string } // engine-level: end of this path
type engineErr struct{ msg string }

func unsupported(format string, a ...any) { panic(engineErr{fmt.Sprintf(format, a...)}) }

func intInfo(t types.Type) (w int, signed bool, ok bool) {
	b, isb := t.Underlying().(*types.Basic)
	if !isb {
		return 0, false, false
	}
	switch b.Kind() {
	case types.Int, types.Int64, types.UntypedInt:
		return 64, true, true
	case types.Int8:
		return 8, true, true
	case types.Int16:
		return 16, true, true
	case types.Int32, types.UntypedRune:
		return 32, true, true
	case types.Uint, types.Uint64, types.Uintptr:
		return 64, false, true
	case types.Uint8:
		return 8, false, true
	case types.Uint16:
		return 16, false, true
	case types.Uint32:
		return 32, false, true
	}
	return 0, false, false
}

func norm(v uint64, w int, signed bool) uint64 {
	if w >= 64 {
		return v
	}
	v &= mask(w)
	if signed && v&(1<<uint(w-1)) != 0 {
		v |= ^mask(w)
	}
	return v
}

func (i Int) term(w int) *Term {
	if i.T != nil {
		return i.T
	}
	return bvConst(i.V, w)
}
func (b Bool) term() *Term {
	if b.T != nil {
		return b.T
	}
	if b.B {
		return tTrue
	}
	return tFalse
}
func mkBool(t *Term) Bool {
	if t == tTrue {
		return Bool{B: true}
	}
	if t == tFalse {
		return Bool{B: false}
	}
	return Bool{T: t}
}
func (s Str) byteTerm(i int) *Term {
	if s.Sym != nil && s.Sym[i] != nil {
		return s.Sym[i]
	}
	return bvConst(uint64(s.S[i]), 8)
}
func (s Str) isConc() bool {
	if s.Sym == nil {
		return true
	}
	for _, t := range s.Sym {
		if t != nil {
			return false
		}
	}
	return true
}
func (s Str) slice(lo, hi int) Str {
	r := Str{S: s.S[lo:hi]}
	if s.Sym != nil {
		r.Sym = s.Sym[lo:hi]
		if r.isConc() {
			r.Sym = nil
		}
	}
	return r
}
func (s Str) at(i int) Int {
	if s.Sym != nil && s.Sym[i] != nil {
		return Int{T: s.Sym[i]}
	}
	return Int{V: uint64(s.S[i])}
}
func concat(a, b Str) Str {
	r := Str{S: a.S + b.S}
	if a.Sym != nil || b.Sym != nil {
		r.Sym = make([]*Term, 0, len(r.S))
		if a.Sym != nil {
			r.Sym = append(r.Sym, a.Sym...)
		} else {
			r.Sym = append(r.Sym, make([]*Term, len(a.S))...)
		}
		if b.Sym != nil {
			r.Sym = append(r.Sym, b.Sym...)
		} else {
			r.Sym = append(r.Sym, make([]*Term, len(b.S))...)
		}
	}
	return r
}
func strEq(a, b Str) *Term {
	if len(a.S) != len(b.S) {
		return tFalse
	}
	var cs []*Term
	for i := 0; i < len(a.S); i++ {
		cs = append(cs, tEq(a.byteTerm(i), b.byteTerm(i)))
	}
	return tAnd(cs...)
}
func (s Str) show() string {
	if s.isConc() {
		return fmt.Sprintf("%q", s.S)
	}
	var sb strings.Builder
	sb.WriteString("\"")
	for i := 0; i < len(s.S); i++ {
		if s.Sym[i] != nil {
			sb.WriteString("<" + s.Sym[i].str + ">")
		} else {
			sb.WriteByte(s.S[i])
		}
	}
	sb.WriteString("\"")
	return sb.String()
}

func zero(t types.Type) Value {
	switch u := t.Underlying().(type) {
	case *types.Basic:
		switch {
		case u.Info()&types.IsBoolean != 0:
			return Bool{}
		case u.Info()&types.IsInteger != 0:
			return Int{}
		case u.Info()&types.IsString != 0:
			return Str{}
		case u.Info()&types.IsFloat != 0:
			return Float{}
		case u.Kind() == types.UnsafePointer:
			return (*Value)(nil)
		case u.Kind() == types.UntypedNil:
			return nil
		}
	case *types.Pointer:
		return (*Value)(nil)
	case *types.Slice:
		return []Value(nil)
	case *types.Map:
		return (*Map)(nil)
	case *types.Signature:
		return (*Closure)(nil)
	case *types.Interface:
		return Iface{}
	case *types.Chan:
		return nil
	case *types.Struct:
		s := make(Struct, u.NumFields())
		for i := range s {
			s[i] = zero(u.Field(i).Type())
		}
		return s
	case *types.Array:
		a := make(Array, u.Len())
		for i := range a {
			a[i] = zero(u.Elem())
		}
		return a
	case *types.Tuple:
		tp := make(Tuple, u.Len())
		for i := range tp {
			tp[i] = zero(u.At(i).Type())
		}
		return tp
	}
	unsupported("zero of %s", t)
	return nil
}

func copyVal(v Value) Value {
	switch x := v.(type) {
	case Struct:
		c := make(Struct, len(x))
		for i := range x {
			c[i] = copyVal(x[i])
		}
		return c
	case Array:
		c := make(Array, len(x))
		for i := range x {
			c[i] = copyVal(x[i])
		}
		return c
	}
	return v
}

func constValue(c *ssa.Const) Value {
	if c.Value == nil {
		return zero(c.Type())
	}
	t := c.Type().Underlying()
	if b, ok := t.(*types.Basic); ok {
		switch {
		case b.Info()&types.IsBoolean != 0:
			return Bool{B: constant.BoolVal(c.Value)}
		case b.Info()&types.IsInteger != 0:
			w, signed, _ := intInfo(t)
			if signed {
				i, _ := constant.Int64Val(constant.ToInt(c.Value))
				return Int{V: norm(uint64(i), w, true)}
			}
			u, _ := constant.Uint64Val(constant.ToInt(c.Value))
			return Int{V: norm(u, w, false)}
		case b.Info()&types.IsString != 0:
			return Str{S: constant.StringVal(c.Value)}
		case b.Info()&types.IsFloat != 0:
			f, _ := constant.Float64Val(c.Value)
			return Float{V: f}
		}
	}
	unsupported("const %s of type %s", c, c.Type())
	return nil
}

func hashKey(v Value) (any, bool) {
	switch x := v.(type) {
	case Str:
		if x.isConc() {
			return "s:" + x.S, true
		}
	case Int:
		if x.T == nil {
			return x.V, true
		}
	case Bool:
		if x.T == nil {
			return x.B, true
		}
	case Iface:
		if k, ok := hashKey(x.V); ok {
			return fmt.Sprintf("i:%v:%v", x.T, k), true
		}
	case *Value:
		return x, true
	}
	return nil, false
}

func newMap() *Map { return &Map{idx: map[any]int{}} }

func arith(op token.Token, x, y uint64, w int, signed bool) (uint64, bool) {
	switch op {
	case token.ADD:
		return norm(x+y, w, signed), true
	case token.SUB:
		return norm(x-y, w, signed), true
	case token.MUL:
		return norm(x*y, w, signed), true
	case token.QUO:
		if y == 0 {
			panic(goPanic{v: runtimeErr("integer divide by zero")})
		}
		if signed {
			return norm(uint64(int64(x)/int64(y)), w, signed), true
		}
		return norm(x/y, w, signed), true
	case token.REM:
		if y == 0 {
			panic(goPanic{v: runtimeErr("integer divide by zero")})
		}
		if signed {
			return norm(uint64(int64(x)%int64(y)), w, signed), true
		}
		return norm(x%y, w, signed), true
	case token.AND:
		return x & y, true
	case token.OR:
		return x | y, true
	case token.XOR:
		return norm(x^y, w, signed), true
	case token.AND_NOT:
		return x &^ y, true
	case token.SHL:
		if y >= 64 {
			return 0, true
		}
		return norm(x<<y, w, signed), true
	case token.SHR:
		if signed {
			if y >= 64 {
				y = 63
			}
			return norm(uint64(int64(x)>>y), w, signed), true
		}
		if y >= 64 {
			return 0, true
		}
		return norm((x&mask(w))>>y, w, signed), true
	}
	return 0, false
}

func cmpConc(op token.Token, x, y uint64, signed bool) bool {
	if signed {
		a, b := int64(x), int64(y)
		switch op {
		case token.LSS:
			return a < b
		case token.LEQ:
			return a <= b
		case token.GTR:
			return a > b
		case token.GEQ:
			return a >= b
		}
	}
	switch op {
	case token.LSS:
		return x < y
	case token.LEQ:
		return x <= y
	case token.GTR:
		return x > y
	case token.GEQ:
		return x >= y
	}
	panic("cmp")
}

var rtErrType = types.NewNamed(types.NewTypeName(token.NoPos, nil, "runtime.Error", nil), types.Typ[types.String], nil)

func runtimeErr(msg string) Value { return Iface{T: rtErrType, V: Str{S: "runtime error: " + msg}} }

func floatBits(f float64) uint64 { return math.Float64bits(f) }
