package main

import (
	"encoding/json"
	"flag"
	"fmt"
	"go/types"
	"os"
	"path/filepath"
	"runtime"
	"sort"
	"strings"
	"time"

	"golang.org/x/tools/go/packages"
	"golang.org/x/tools/go/ssa"
	"golang.org/x/tools/go/ssa/ssautil"
)

const repoPath = "github.com/issue9/mux/v9"

func isRepoPkg(p *ssa.Package) bool { return p != nil && strings.HasPrefix(p.Pkg.Path(), repoPath) }

// harness directory -> package directory relative to the repository root
var harnessDirs = map[string]string{
	"mux":     ".",
	"tree":    "internal/tree",
	"syntax":  "internal/syntax",
	"types":   "types",
	"trace":   "internal/trace",
	"zzverif": "internal/zzverif",
}

type loaded struct {
	prog    *ssa.Program
	pkgs    map[string]*ssa.Package // harness dir name -> package
	overlay map[string]string       // virtual path -> real path (for go test -overlay)
	entries map[string][]string     // harness dir name -> ZZ entry functions
	loadDur time.Duration
}

func verifRoot() string {
	if r := os.Getenv("VERIF_ROOT"); r != "" {
		return r
	}
	exe, err := os.Executable()
	if err == nil {
		d := filepath.Dir(filepath.Dir(exe))
		if _, err := os.Stat(filepath.Join(d, "harness")); err == nil {
			return d
		}
	}
	return "/verif"
}

func loadRepo(repoDir string, dirs []string) *loaded {
	t0 := time.Now()
	root := verifRoot()
	ov := map[string][]byte{}
	l := &loaded{pkgs: map[string]*ssa.Package{}, overlay: map[string]string{}, entries: map[string][]string{}}
	need := map[string]bool{"zzverif": true}
	for _, d := range dirs {
		need[d] = true
	}
	for hd := range need {
		files, _ := filepath.Glob(filepath.Join(root, "harness", hd, "*.go"))
		sort.Strings(files)
		for _, f := range files {
			b, err := os.ReadFile(f)
			if err != nil {
				panic(err)
			}
			virt := filepath.Join(repoDir, harnessDirs[hd], "zz_verif_"+filepath.Base(f))
			if hd == "zzverif" {
				virt = filepath.Join(repoDir, harnessDirs[hd], filepath.Base(f))
			}
			ov[virt] = b
			l.overlay[virt] = f
		}
	}
	var pats []string
	for _, d := range dirs {
		pats = append(pats, "./"+harnessDirs[d])
	}
	cfg := &packages.Config{Mode: packages.LoadAllSyntax, Dir: repoDir, BuildFlags: []string{"-tags=verif"}, Overlay: ov,
		Env: append(os.Environ(), "GOFLAGS=-mod=mod", "GOPROXY=off", "GOSUMDB=off", "GOTOOLCHAIN=local")}
	pkgs, err := packages.Load(cfg, pats...)
	if err != nil {
		fmt.Println("INCONCLUSIVE load:", err)
		os.Exit(2)
	}
	if packages.PrintErrors(pkgs) > 0 {
		fmt.Println("INCONCLUSIVE: /repo (with the harness overlay) does not type-check")
		os.Exit(2)
	}
	prog, sp := ssautil.AllPackages(pkgs, ssa.InstantiateGenerics)
	prog.Build()
	l.prog = prog
	for i, p := range pkgs {
		for hd, rel := range harnessDirs {
			want := repoPath
			if rel != "." {
				want += "/" + rel
			}
			if p.PkgPath == want && need[hd] {
				l.pkgs[hd] = sp[i]
				for name, mem := range sp[i].Members {
					if f, ok := mem.(*ssa.Function); ok && strings.HasPrefix(name, "ZZ") && f.Signature.Params().Len() == 1 {
						l.entries[hd] = append(l.entries[hd], name)
					}
				}
				sort.Strings(l.entries[hd])
			}
		}
	}
	l.loadDur = time.Since(t0)
	return l
}

func newExplorer(l *loaded, workers int) *Explorer {
	ex := &Explorer{prog: l.prog, workers: workers, leafSample: 1, maxLeaves: 0, depGlobals: map[string]*Value{}}
	ex.cond = syncCond(&ex.mu)
	ex.repoPkgs, ex.repoGlobals = collectRepoGlobals(l.prog)
	for _, name := range []string{"strconv.ErrSyntax", "strconv.ErrRange", "io.EOF", "net/http.ErrAbortHandler", "net/http.ErrHandlerTimeout"} {
		var v Value = opaqueErr(name)
		ex.depGlobals[name] = &v
	}
	var maxLen Value = Int{V: 64}
	ex.depGlobals["internal/bytealg.MaxLen"] = &maxLen
	ex.runDepInits()
	if os.Getenv("VERIF_NO_INIT_CACHE") == "" {
		ex.runInits()
	}
	return ex
}

func main() {
	if len(os.Args) < 2 {
		fmt.Println("usage: symgo check|run|replay ...")
		os.Exit(2)
	}
	switch os.Args[1] {
	case "run":
		cmdRun(os.Args[2:])
	case "check":
		cmdCheck(os.Args[2:])
	case "replay":
		cmdReplay(os.Args[2:])
	case "selftest":
		cmdSelfTest(os.Args[2:])
	default:
		fmt.Println("unknown command", os.Args[1])
		os.Exit(2)
	}
}

// cmdRun: development entry — explore one harness and print a summary.
func cmdRun(args []string) {
	fs := flag.NewFlagSet("run", flag.ExitOnError)
	dir := fs.String("dir", "tree", "harness dir (mux|tree|syntax|types|trace)")
	entry := fs.String("entry", "", "harness function")
	n := fs.Int("n", 0, "int argument")
	repo := fs.String("repo", "/repo", "repository")
	workers := fs.Int("j", runtime.NumCPU(), "workers")
	trace := fs.Bool("trace", false, "trace instructions")
	maxPaths := fs.Int("maxpaths", 0, "path budget")
	native := fs.Int("native", 0, "validate up to N sampled leaves natively")
	rev := fs.Bool("maprev", false, "reverse map iteration order")
	fs.Parse(args)
	l := loadRepo(*repo, []string{*dir})
	fmt.Printf("load+build: %.1fs\n", l.loadDur.Seconds())
	ex := newExplorer(l, *workers)
	ex.trace = *trace
	ex.maxPaths = *maxPaths
	ex.mapReverse = *rev
	if *native > 0 {
		ex.maxLeaves = *native
		ex.leafSample = 1
	}
	st := ex.run(l.pkgs[*dir], *entry, *n)
	printStats(st)
	if len(st.Violations) > 0 {
		res := replayNative(l, *repo, *dir, violationCases(st.Violations), false)
		for i, v := range st.Violations {
			fmt.Printf("VIOLATION %-40s @ %-40s x%d native=%s\n   values=%s\n", v.Label, v.Site, v.Count, describeNative(res, i, v.Label), showValues(v.Values))
		}
	}
	if *native > 0 && len(st.Leaves) > 0 {
		bad := validateLeaves(l, *repo, *dir, st.Leaves)
		fmt.Printf("native validation: %d leaves, %d mismatches\n", len(st.Leaves), len(bad))
		for _, b := range bad {
			fmt.Println("  MISMATCH", b)
		}
	}
}

func showValues(vs []NDValue) string {
	var parts []string
	for _, v := range vs {
		switch v.Kind {
		case "bytes":
			b := make([]byte, len(v.Bytes))
			for i, x := range v.Bytes {
				b[i] = byte(x)
			}
			parts = append(parts, fmt.Sprintf("%s=%q", v.Name, b))
		case "choice":
			parts = append(parts, fmt.Sprintf("%s=%d", v.Name, v.N))
		case "int":
			parts = append(parts, fmt.Sprintf("%s=%d", v.Name, v.Int))
		case "bool":
			parts = append(parts, fmt.Sprintf("%s=%v", v.Name, v.Bool))
		case "uf":
			b := make([]byte, len(v.Bytes))
			for i, x := range v.Bytes {
				b[i] = byte(x)
			}
			parts = append(parts, fmt.Sprintf("%s(%q)=%v", v.Name, b, v.Bool))
		}
	}
	return strings.Join(parts, " ")
}

func printStats(st *RunStats) {
	fmt.Printf("%s(%d): paths=%d forks=%d steps=%d decisions=%d asserts=%d wall=%.2fs solver: %d queries (%d sat %d unsat %d unknown %d err) %.2fs, filter hits %d\n",
		st.Entry, st.Arg, st.Paths, st.Forks, st.Steps, st.Decisions, st.Asserts, st.Wall.Seconds(),
		st.Solver.Queries, st.Solver.Sat, st.Solver.Unsat, st.Solver.Unknown, st.Solver.Errors, st.Solver.Time.Seconds(), st.FilterHits)
	fmt.Println("  cover:", st.Cover)
	fmt.Println("  aborted:", st.Aborted)
	if len(st.EngineErrs) > 0 {
		fmt.Println("  ENGINE ERRORS:", st.EngineErrs)
	}
	if len(st.Unknowns) > 0 {
		fmt.Println("  UNKNOWN:", st.Unknowns)
	}
	if st.Truncated {
		fmt.Println("  TRUNCATED (budget)")
	}
	fmt.Println("  top functions:", topN(st.FnSteps, 8, func(k string) bool {
		return strings.Contains(k, repoPath) && !strings.Contains(k, "ZZ") && !strings.Contains(k, "zz")
	}))
}

func mustJSON(v any) []byte {
	b, err := json.MarshalIndent(v, "", " ")
	if err != nil {
		panic(err)
	}
	return b
}

var _ = types.Typ
