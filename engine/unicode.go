package main

import (
	"go/types"
	"strings"
	"unicode"

	"golang.org/x/tools/go/ssa"
)

// notHandled is returned by an intrinsic that declines a call: the function's own SSA is run.
type notHandledT struct{}

func (notHandledT) String() string { return "<not handled>" }

var notHandled Value = notHandledT{}

// assumeASCIIRune restricts a symbolic rune to < 0x80 for the rest of the path (counted, see assumeASCII).
func (m *Machine) assumeASCIIRune(r *Term, who string) {
	hi := tBin("bvuge", 0, r, bvConst(0x80, r.W))
	if !m.feasible(hi) {
		return
	}
	lo := tNot(hi)
	if !m.feasible(lo) {
		panic(abortPath{"non-ASCII rune in " + who + " (outside the model)"})
	}
	m.ex.noteAssumed(who + ": non-ASCII runes not explored")
	m.addPC(lo)
}

// asciiSetTerm: r (already < 0x80) is one of the ASCII characters satisfying f.
func asciiSetTerm(r *Term, f func(rune) bool) *Term {
	var ors []*Term
	for c := 0; c < 0x80; {
		if !f(rune(c)) {
			c++
			continue
		}
		lo := c
		for c < 0x80 && f(rune(c)) {
			c++
		}
		if lo == c-1 {
			ors = append(ors, tEq(r, bvConst(uint64(lo), r.W)))
		} else {
			ors = append(ors, tAnd(tBin("bvuge", 0, r, bvConst(uint64(lo), r.W)), tBin("bvule", 0, r, bvConst(uint64(c-1), r.W))))
		}
	}
	if len(ors) == 0 {
		return tNot(tEq(r, r))
	}
	return tOr(ors...)
}

func init() {
	// unicode predicates and case mappings: the real function on a concrete rune; on a symbolic
	// rune the exact ASCII behaviour (non-ASCII runes are left unexplored, counted in the evidence).
	pred := func(name string, f func(rune) bool) {
		intrinsics["unicode."+name] = func(m *Machine, fr *frame, fn *ssa.Function, a []Value) Value {
			r := a[0].(Int)
			if r.T == nil {
				return Bool{B: f(rune(int32(r.V)))}
			}
			m.assumeASCIIRune(r.T, "unicode."+name)
			return mkBool(asciiSetTerm(r.T, f))
		}
	}
	pred("IsDigit", unicode.IsDigit)
	pred("IsNumber", unicode.IsNumber)
	pred("IsLetter", unicode.IsLetter)
	pred("IsSpace", unicode.IsSpace)
	pred("IsUpper", unicode.IsUpper)
	pred("IsLower", unicode.IsLower)
	pred("IsPunct", unicode.IsPunct)
	pred("IsControl", unicode.IsControl)
	pred("IsGraphic", unicode.IsGraphic)
	pred("IsPrint", unicode.IsPrint)
	pred("IsSymbol", unicode.IsSymbol)
	pred("IsTitle", unicode.IsTitle)
	mapping := func(name string, f func(rune) rune, delta int64, from, to byte) {
		intrinsics["unicode."+name] = func(m *Machine, fr *frame, fn *ssa.Function, a []Value) Value {
			r := a[0].(Int)
			if r.T == nil {
				return Int{V: norm(uint64(int64(f(rune(int32(r.V))))), 32, true)}
			}
			m.assumeASCIIRune(r.T, "unicode."+name)
			in := tAnd(tBin("bvuge", 0, r.T, bvConst(uint64(from), r.T.W)), tBin("bvule", 0, r.T, bvConst(uint64(to), r.T.W)))
			return Int{T: tIte(in, tBin("bvadd", r.T.W, r.T, bvConst(uint64(delta), r.T.W)), r.T)}
		}
	}
	mapping("ToLower", unicode.ToLower, 32, 'A', 'Z')
	mapping("ToUpper", unicode.ToUpper, -32, 'a', 'z')
	mapping("ToTitle", unicode.ToTitle, -32, 'a', 'z')
	intrinsics["unicode.SimpleFold"] = func(m *Machine, fr *frame, fn *ssa.Function, a []Value) Value {
		r := a[0].(Int)
		if r.T == nil {
			return Int{V: norm(uint64(int64(unicode.SimpleFold(rune(int32(r.V))))), 32, true)}
		}
		unsupported("unicode.SimpleFold on a symbolic rune")
		return nil
	}
	// strings.EqualFold: the real function when both strings are concrete (they may be non-ASCII);
	// otherwise its own SSA is interpreted (ASCII fast path; unicode.SimpleFold above for the rest).
	intrinsics["strings.EqualFold"] = func(m *Machine, fr *frame, fn *ssa.Function, a []Value) Value {
		s, t := a[0].(Str), a[1].(Str)
		if s.isConc() && t.isConc() {
			return Bool{B: strings.EqualFold(s.S, t.S)}
		}
		return notHandled
	}
}

func init() {
	// maps.clone (linked to the runtime): a shallow copy of the map; maps.Clone calls it after a nil test.
	intrinsics["maps.clone"] = func(m *Machine, fr *frame, fn *ssa.Function, a []Value) Value {
		var src *Map
		switch x := a[0].(type) {
		case *Map:
			src = x
		case Iface:
			src, _ = x.V.(*Map)
		}
		if src == nil {
			return a[0]
		}
		if src.wild != nil {
			unsupported("maps.Clone of a stub map")
		}
		n := newMap()
		for i := range src.keys {
			if !src.live[i] {
				continue
			}
			n.keys = append(n.keys, copyVal(src.keys[i]))
			n.vals = append(n.vals, copyVal(src.vals[i]))
			n.live = append(n.live, true)
			if k, ok := hashKey(n.keys[len(n.keys)-1]); ok {
				n.idx[k] = len(n.keys) - 1
			}
			n.n++
		}
		if _, isIface := a[0].(Iface); isIface {
			return Iface{T: a[0].(Iface).T, V: n}
		}
		return n
	}
}

func init() {
	// sort.Slice / sort.SliceStable go through reflectlite; for <= 12 elements both are the insertion sort below
	// (pdqsort's small-slice case and stable's block size 20), which is executed with the caller's less function.
	sortSlice := func(limit int) intrinsic {
		return func(m *Machine, fr *frame, fn *ssa.Function, a []Value) Value {
			i, ok := a[0].(Iface)
			if !ok || i.T == nil {
				unsupported("%s of a non-slice", fn.Name())
			}
			sl, ok := i.V.([]Value)
			if !ok {
				unsupported("%s of %T", fn.Name(), i.V)
			}
			if len(sl) > limit {
				unsupported("%s of more than %d elements", fn.Name(), limit)
			}
			for x := 1; x < len(sl); x++ {
				for y := x; y > 0; y-- {
					lt := m.callValue(fr, a[1], []Value{Int{V: uint64(y)}, Int{V: uint64(y - 1)}}).(Bool)
					if !m.branchIn(fr, lt) {
						break
					}
					sl[y], sl[y-1] = sl[y-1], sl[y]
				}
			}
			return nil
		}
	}
	intrinsics["sort.Slice"] = sortSlice(12)
	intrinsics["sort.SliceStable"] = sortSlice(20)
}

// hasMethod: the method set of t has a method called name.
func (m *Machine) hasMethod(t types.Type, name string) bool {
	ms := m.prog.MethodSets.MethodSet(t)
	for k := 0; k < ms.Len(); k++ {
		if ms.At(k).Obj().Name() == name {
			return true
		}
	}
	return false
}

func init() {
	// errors.Is without reflectlite: identity on the chain of Unwrap() error (an Is method is honoured).
	intrinsics["errors.Is"] = func(m *Machine, fr *frame, fn *ssa.Function, a []Value) Value {
		err, ok1 := a[0].(Iface)
		target, ok2 := a[1].(Iface)
		if !ok1 || !ok2 {
			unsupported("errors.Is on %T, %T", a[0], a[1])
		}
		if err.T == nil || target.T == nil {
			return Bool{B: err.T == nil && target.T == nil}
		}
		for depth := 0; depth < 16; depth++ {
			if err.T == nil {
				return Bool{B: false}
			}
			if types.Identical(err.T, target.T) || err.T == target.T {
				if m.branchIn(fr, m.equal(err, target)) {
					return Bool{B: true}
				}
			}
			if err.T != rtErrType && err.T != opaqueErrType {
				if m.hasMethod(err.T, "Is") {
					if r, ok := m.invoke(fr, err, "Is", target).(Bool); ok && m.branchIn(fr, r) {
						return Bool{B: true}
					}
				}
				if m.hasMethod(err.T, "Unwrap") {
					next, ok := m.invoke(fr, err, "Unwrap").(Iface)
					if !ok {
						unsupported("errors.Is: Unwrap returning a list")
					}
					err = next
					continue
				}
			}
			return Bool{B: false}
		}
		return Bool{B: false}
	}
}

func init() {
	// the rest of sync.Map (Load/Store/LoadOrStore/Delete are in intrinsics.go)
	intrinsics["(*sync.Map).Clear"] = func(m *Machine, fr *frame, fn *ssa.Function, a []Value) Value {
		mp := m.syncMap(a[0])
		for i := range mp.keys {
			mp.live[i] = false
		}
		mp.idx = map[any]int{}
		mp.n = 0
		return nil
	}
	intrinsics["(*sync.Map).LoadAndDelete"] = func(m *Machine, fr *frame, fn *ssa.Function, a []Value) Value {
		mp := m.syncMap(a[0])
		if i := m.mapFind(mp, a[1]); i >= 0 {
			v := mp.vals[i]
			m.mapDelete(mp, a[1])
			return Tuple{v, Bool{B: true}}
		}
		return Tuple{Iface{}, Bool{B: false}}
	}
	intrinsics["(*sync.Map).Swap"] = func(m *Machine, fr *frame, fn *ssa.Function, a []Value) Value {
		mp := m.syncMap(a[0])
		var prev Value = Iface{}
		loaded := false
		if i := m.mapFind(mp, a[1]); i >= 0 {
			prev, loaded = mp.vals[i], true
		}
		m.mapUpdate(mp, a[1], a[2])
		return Tuple{prev, Bool{B: loaded}}
	}
	intrinsics["(*sync.Map).Range"] = func(m *Machine, fr *frame, fn *ssa.Function, a []Value) Value {
		mp := m.syncMap(a[0])
		n := len(mp.keys)
		for i := 0; i < n; i++ {
			if !mp.live[i] {
				continue
			}
			if r, ok := m.callValue(fr, a[1], []Value{mp.keys[i], mp.vals[i]}).(Bool); ok && !m.branchIn(fr, r) {
				break
			}
		}
		return nil
	}
}
