package main

import (
	"bufio"
	"fmt"
	"io"
	"os"
	"os/exec"
	"strings"
	"time"
)

type satResult int

const (
	resUnsat satResult = iota
	resSat
	resUnknown
)

func (r satResult) String() string { return [...]string{"unsat", "sat", "unknown"}[r] }

// Solver is one persistent SMT solver process (z3 -in / cvc5 --incremental).
type Solver struct {
	bin       string
	cmd       *exec.Cmd
	in        io.WriteCloser
	out       *bufio.Reader
	declared  map[string]bool
	declLevel map[string]int
	decls     []string // declaration text in order (for standalone scripts)

	stack []*Term // constraints currently asserted, one push level each

	Queries  int
	NSat     int
	NUnsat   int
	NUnknown int
	Errors   int
	Time     time.Duration
}

func solverArgs(bin string) []string {
	switch bin {
	case "cvc5":
		return []string{"--incremental", "--produce-models", "--lang=smt2", "--tlimit-per=20000"}
	default: // z3, z3-new
		return []string{"-in", "-t:20000"}
	}
}

func NewSolver(bin string) *Solver {
	cmd := exec.Command(bin, solverArgs(bin)...)
	in, _ := cmd.StdinPipe()
	out, _ := cmd.StdoutPipe()
	if err := cmd.Start(); err != nil {
		panic(engineErr{"cannot start solver " + bin + ": " + err.Error()})
	}
	s := &Solver{bin: bin, cmd: cmd, in: in, out: bufio.NewReaderSize(out, 1<<16), declared: map[string]bool{}, declLevel: map[string]int{}}
	if bin == "cvc5" {
		s.send("(set-logic ALL)\n")
	}
	return s
}

func (s *Solver) Close() {
	if s.cmd != nil {
		s.in.Close()
		s.cmd.Process.Kill()
		s.cmd.Wait()
		s.cmd = nil
	}
}

func (s *Solver) send(str string) { io.WriteString(s.in, str) }

func sortOf(w int) string {
	if w == 0 {
		return "Bool"
	}
	return fmt.Sprintf("(_ BitVec %d)", w)
}

// declareTo declares the symbols of t. Declarations made inside a push level
// disappear with it, so they are tracked per level: a symbol is re-declared
// whenever the level it was declared in has been popped.
func (s *Solver) declareTo(t *Term, sb *strings.Builder) {
	switch t.Op {
	case "var":
		if lvl, ok := s.declLevel[t.Name]; !ok || lvl > len(s.stack) {
			s.declLevel[t.Name] = len(s.stack)
			s.declared[t.Name] = true
			fmt.Fprintf(sb, "(declare-const %s %s)\n", t.Name, sortOf(t.W))
		}
		return
	case "uf":
		if lvl, ok := s.declLevel[t.Name]; !ok || lvl > len(s.stack) {
			s.declLevel[t.Name] = len(s.stack)
			s.declared[t.Name] = true
			var as []string
			for _, a := range t.Args {
				as = append(as, sortOf(a.W))
			}
			fmt.Fprintf(sb, "(declare-fun %s (%s) %s)\n", t.Name, strings.Join(as, " "), sortOf(t.W))
		}
	}
	for _, a := range t.Args {
		s.declareTo(a, sb)
	}
}

func (s *Solver) declare(t *Term) {
	switch t.Op {
	case "var":
		if !s.declared[t.Name] {
			s.declared[t.Name] = true
			d := fmt.Sprintf("(declare-const %s %s)\n", t.Name, sortOf(t.W))
			s.decls = append(s.decls, d)
			s.send(d)
		}
		return
	case "uf":
		if !s.declared[t.Name] {
			s.declared[t.Name] = true
			var as []string
			for _, a := range t.Args {
				as = append(as, sortOf(a.W))
			}
			d := fmt.Sprintf("(declare-fun %s (%s) %s)\n", t.Name, strings.Join(as, " "), sortOf(t.W))
			s.decls = append(s.decls, d)
			s.send(d)
		}
	}
	for _, a := range t.Args {
		s.declare(a)
	}
}

// live: are all symbols of t declared in the solver's current scope?
func (s *Solver) live(t *Term) bool {
	switch t.Op {
	case "var", "uf":
		if _, ok := s.declLevel[t.Name]; !ok {
			return false
		}
	}
	for _, a := range t.Args {
		if !s.live(a) {
			return false
		}
	}
	return true
}

func (s *Solver) readLine() string {
	line, err := s.out.ReadString('\n')
	if err != nil {
		panic(engineErr{"solver " + s.bin + " died: " + err.Error()})
	}
	return strings.TrimSpace(line)
}

// Script renders a standalone SMT-LIB2 script for the conjunction.
func Script(conj []*Term) string {
	seen := map[string]bool{}
	var decl strings.Builder
	var walk func(t *Term)
	walk = func(t *Term) {
		if t.Op == "var" && !seen[t.Name] {
			seen[t.Name] = true
			fmt.Fprintf(&decl, "(declare-const %s %s)\n", t.Name, sortOf(t.W))
		}
		if t.Op == "uf" && !seen[t.Name] {
			seen[t.Name] = true
			var as []string
			for _, a := range t.Args {
				as = append(as, sortOf(a.W))
			}
			fmt.Fprintf(&decl, "(declare-fun %s (%s) %s)\n", t.Name, strings.Join(as, " "), sortOf(t.W))
		}
		for _, a := range t.Args {
			walk(a)
		}
	}
	var body strings.Builder
	for _, c := range conj {
		walk(c)
		body.WriteString("(assert " + c.str + ")\n")
	}
	return decl.String() + body.String() + "(check-sat)\n"
}

// Sat checks satisfiability of pc ∧ extra; on sat the values of modelVars are
// returned. The solver's assertion stack mirrors pc (one push level per
// conjunct): only the part of pc that differs from the previous query is
// popped/pushed, extra is asserted in a temporary level.
func (s *Solver) Sat(pc []*Term, modelVars []*Term, extra ...*Term) (satResult, map[string]uint64) {
	t0 := time.Now()
	defer func() { s.Time += time.Since(t0); s.Queries++ }()
	var sb strings.Builder
	k := 0
	for k < len(s.stack) && k < len(pc) && s.stack[k] == pc[k] {
		k++
	}
	if k < len(s.stack) {
		fmt.Fprintf(&sb, "(pop %d)\n", len(s.stack)-k)
		s.stack = s.stack[:k]
		// declarations made above level k went away with the popped levels
		for name, lvl := range s.declLevel {
			if lvl > k {
				delete(s.declLevel, name)
			}
		}
	}
	for _, c := range pc[k:] {
		s.declareTo(c, &sb)
		sb.WriteString("(push 1)\n(assert " + c.str + ")\n")
		s.stack = append(s.stack, c)
	}
	for _, c := range extra {
		s.declareTo(c, &sb)
	}
	if len(extra) > 0 {
		sb.WriteString("(push 1)\n")
		for _, c := range extra {
			sb.WriteString("(assert " + c.str + ")\n")
		}
	}
	sb.WriteString("(check-sat)\n")
	s.send(sb.String())
	line := s.readLine()
	for strings.HasPrefix(line, "(error") {
		s.Errors++
		if s.Errors <= 3 {
			fmt.Fprintln(os.Stderr, "solver error line:", line)
		}
		// an error line means the answer that follows cannot be trusted
		line = s.readLine()
		if line == "sat" || line == "unsat" || line == "unknown" {
			line = "unknown"
			break
		}
	}
	var model map[string]uint64
	res := resUnknown
	switch line {
	case "sat":
		res = resSat
		s.NSat++
		if len(modelVars) > 0 {
			model = map[string]uint64{}
			for _, v := range modelVars {
				if !s.live(v) {
					continue // not constrained on this path: any value will do (0)
				}
				s.send("(get-value (" + v.str + "))\n")
				l := s.readLine()
				i := strings.LastIndexByte(l, ' ')
				val := strings.TrimRight(l[i+1:], ")")
				var x uint64
				switch {
				case strings.HasPrefix(val, "#x"):
					fmt.Sscanf(val[2:], "%x", &x)
				case strings.HasPrefix(val, "#b"):
					for _, c := range val[2:] {
						x = x<<1 | uint64(c-'0')
					}
				case val == "true":
					x = 1
				case val == "false":
					x = 0
				default:
					// (_ bvN W) form
					if j := strings.Index(l, "(_ bv"); j >= 0 {
						fmt.Sscanf(l[j+5:], "%d", &x)
					}
				}
				model[v.str] = x
			}
		}
	case "unsat":
		res = resUnsat
		s.NUnsat++
	default:
		s.NUnknown++
	}
	if len(extra) > 0 {
		s.send("(pop 1)\n")
	}
	return res, model
}

// oneShot runs a standalone script with a fresh process of the given solver.
func oneShot(bin, script string) string {
	var args []string
	switch bin {
	case "cvc5":
		args = []string{"--lang=smt2", "--tlimit=60000"}
		script = "(set-logic ALL)\n" + script
	default:
		args = []string{"-in", "-T:60"}
	}
	cmd := exec.Command(bin, args...)
	cmd.Stdin = strings.NewReader(script)
	out, _ := cmd.Output()
	o := strings.TrimSpace(string(out))
	if strings.Contains(o, "(error") {
		return "error"
	}
	if i := strings.IndexByte(o, '\n'); i >= 0 {
		o = o[:i]
	}
	return o
}
