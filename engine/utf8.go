package main

import "unicode/utf8"

// decodeRune is utf8.DecodeRuneInString(s[p:]) on a string whose bytes may be
// symbolic. It forks on the byte classes of the encoding; the returned rune is
// a 32-bit Int (possibly symbolic), the width is concrete.
func (m *Machine) decodeRune(s Str, p int) (Int, int) {
	n := len(s.S) - p
	allConc := true
	for i := p; i < len(s.S) && i < p+4; i++ {
		if s.Sym != nil && s.Sym[i] != nil {
			allConc = false
		}
	}
	if allConc {
		r, w := utf8.DecodeRuneInString(s.S[p:])
		return Int{V: uint64(uint32(r))}, w
	}
	inRange := func(b Int, lo, hi uint64) bool {
		if b.T == nil {
			return b.V >= lo && b.V <= hi
		}
		return m.branch(mkBool(tAnd(tBin("bvuge", 0, b.T, bvConst(lo, 8)), tBin("bvule", 0, b.T, bvConst(hi, 8)))))
	}
	z32 := func(b Int, msk uint64) *Term {
		if b.T == nil {
			return bvConst(b.V&msk, 32)
		}
		return mk("zext", 32, "", 24, tBin("bvand", 8, b.T, bvConst(msk, 8)))
	}
	shl := func(t *Term, k uint64) *Term { return tBin("bvshl", 32, t, bvConst(k, 32)) }
	mkInt := func(t *Term) Int {
		if t.Op == "const" {
			return Int{V: t.Val}
		}
		return Int{T: t}
	}
	bad := Int{V: uint64(utf8.RuneError)}
	b0 := s.at(p)
	if inRange(b0, 0x00, 0x7f) {
		if b0.T == nil {
			return Int{V: b0.V}, 1
		}
		return Int{T: mk("zext", 32, "", 24, b0.T)}, 1
	}
	if inRange(b0, 0xc2, 0xdf) {
		if n < 2 {
			return bad, 1
		}
		b1 := s.at(p + 1)
		if !inRange(b1, 0x80, 0xbf) {
			return bad, 1
		}
		return mkInt(tBin("bvor", 32, shl(z32(b0, 0x1f), 6), z32(b1, 0x3f))), 2
	}
	if inRange(b0, 0xe0, 0xef) {
		if n < 2 {
			return bad, 1
		}
		b1 := s.at(p + 1)
		lo, hi := uint64(0x80), uint64(0xbf)
		if inRange(b0, 0xe0, 0xe0) {
			lo = 0xa0
		} else if inRange(b0, 0xed, 0xed) {
			hi = 0x9f
		}
		if !inRange(b1, lo, hi) {
			return bad, 1
		}
		if n < 3 {
			return bad, 1
		}
		b2 := s.at(p + 2)
		if !inRange(b2, 0x80, 0xbf) {
			return bad, 1
		}
		return mkInt(tBin("bvor", 32, tBin("bvor", 32, shl(z32(b0, 0x0f), 12), shl(z32(b1, 0x3f), 6)), z32(b2, 0x3f))), 3
	}
	if inRange(b0, 0xf0, 0xf4) {
		if n < 2 {
			return bad, 1
		}
		b1 := s.at(p + 1)
		lo, hi := uint64(0x80), uint64(0xbf)
		if inRange(b0, 0xf0, 0xf0) {
			lo = 0x90
		} else if inRange(b0, 0xf4, 0xf4) {
			hi = 0x8f
		}
		if !inRange(b1, lo, hi) {
			return bad, 1
		}
		if n < 3 {
			return bad, 1
		}
		b2 := s.at(p + 2)
		if !inRange(b2, 0x80, 0xbf) {
			return bad, 1
		}
		if n < 4 {
			return bad, 1
		}
		b3 := s.at(p + 3)
		if !inRange(b3, 0x80, 0xbf) {
			return bad, 1
		}
		t := tBin("bvor", 32, tBin("bvor", 32, shl(z32(b0, 0x07), 18), shl(z32(b1, 0x3f), 12)), tBin("bvor", 32, shl(z32(b2, 0x3f), 6), z32(b3, 0x3f)))
		return mkInt(t), 4
	}
	return bad, 1
}
