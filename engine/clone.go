package main

import "unsafe"

// cloner deep-copies a value graph preserving the aliasing of pointer cells,
// maps, closures and (best effort) slices that share one backing array. It is
// used to hand every path a private copy of the state left by the repository's
// package initialisers, which are executed once per run instead of once per path.
type cloner struct {
	ptrs map[*Value]*Value
	maps map[*Map]*Map
	clos map[*Closure]*Closure
	arrs []arrClone
}

type arrClone struct {
	lo, hi uintptr
	base   []Value
}

func newCloner() *cloner {
	return &cloner{ptrs: map[*Value]*Value{}, maps: map[*Map]*Map{}, clos: map[*Closure]*Closure{}}
}

const valueSize = unsafe.Sizeof(Value(nil))

func (c *cloner) slice(s []Value) []Value {
	if s == nil {
		return nil
	}
	full := s[:cap(s)]
	if cap(s) == 0 {
		return []Value{}
	}
	p := uintptr(unsafe.Pointer(unsafe.SliceData(full)))
	for _, a := range c.arrs {
		if p >= a.lo && p+uintptr(cap(s))*valueSize <= a.hi {
			off := int((p - a.lo) / valueSize)
			return a.base[off : off+len(s) : off+cap(s)]
		}
	}
	base := make([]Value, cap(s))
	c.arrs = append(c.arrs, arrClone{p, p + uintptr(cap(s))*valueSize, base})
	for i := range full {
		base[i] = c.val(full[i])
	}
	return base[:len(s):cap(s)]
}

func (c *cloner) val(v Value) Value {
	switch x := v.(type) {
	case *Value:
		if x == nil {
			return x
		}
		if n, ok := c.ptrs[x]; ok {
			return n
		}
		n := new(Value)
		c.ptrs[x] = n
		*n = c.val(*x)
		return n
	case []Value:
		return c.slice(x)
	case Struct:
		return Struct(c.slice([]Value(x)))
	case Array:
		return Array(c.slice([]Value(x)))
	case Tuple:
		out := make(Tuple, len(x))
		for i := range x {
			out[i] = c.val(x[i])
		}
		return out
	case Iface:
		return Iface{T: x.T, V: c.val(x.V)}
	case *Map:
		if x == nil {
			return x
		}
		if n, ok := c.maps[x]; ok {
			return n
		}
		n := newMap()
		c.maps[x] = n
		n.wild = x.wild
		for i := range x.keys {
			n.keys = append(n.keys, c.val(x.keys[i]))
			n.vals = append(n.vals, c.val(x.vals[i]))
			n.live = append(n.live, x.live[i])
			if x.live[i] {
				if k, ok := hashKey(n.keys[i]); ok {
					n.idx[k] = i
				}
			}
		}
		n.n = x.n
		return n
	case *Closure:
		if x == nil {
			return x
		}
		if n, ok := c.clos[x]; ok {
			return n
		}
		n := &Closure{Fn: x.Fn}
		c.clos[x] = n
		for _, e := range x.Env {
			n.Env = append(n.Env, c.val(e))
		}
		return n
	}
	return v // scalars, strings, natives: immutable
}
