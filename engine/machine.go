package main

import (
	"fmt"
	"go/token"
	"go/types"
	"os"
	"runtime"
	"strings"
	"sync"

	"golang.org/x/tools/go/ssa"
)

type deferred struct {
	fn   Value
	args []Value
}

type frame struct {
	caller    *frame
	fn        *ssa.Function
	env       map[ssa.Value]Value
	block     *ssa.BasicBlock
	prev      *ssa.BasicBlock
	defers    []*deferred
	result    Value
	panicking bool
	panicVal  goPanic
}

// ndEntry is one call of a nondet function, in call order (the replay log).
type ndEntry struct {
	Kind  string // bytes | choice | int | bool
	Name  string
	N     int     // choice: decision; bytes: length
	Terms []*Term // bytes: one 8-bit var per byte; int/bool: one var
}

type obsEntry struct {
	Label string
	V     Value
}

// Machine is one worker: it executes one path at a time.
type Machine struct {
	curFn  *ssa.Function // function of the instruction being executed (for engine error messages)
	ex     *Explorer
	prog   *ssa.Program
	solver *Solver

	// per-path state
	globals    map[*ssa.Global]*Value
	prefix     []int
	pos        int
	trail      []int
	pc         []*Term
	vars       []*Term
	dom        map[*Term]bset
	entangled  map[*Term]bool
	ndlog      []ndEntry
	obs        []obsEntry
	covers     []string
	steps      int
	nvar       int
	unknown    bool // a feasibility query answered unknown on this path
	par        *parState
	poolFree   map[*Value][]Value
	dumpCache  map[any]Value
	onces      map[*Value]bool
	ufApps     []ufApp
	reCompiles []reCompile
	refine     []*Term
	syncMaps   map[*Value]*Map

	// per-worker statistics
	forks      int
	filterHits int
	fnSteps    map[*ssa.Function]int
	fnBranches map[*ssa.Function]int
}

const maxSteps = 6_000_000

var debugForks = os.Getenv("VERIF_DEBUG_FORKS") != ""

func (m *Machine) resetPath(prefix []int) {
	m.prefix, m.pos, m.trail, m.pc, m.vars, m.steps = prefix, 0, nil, nil, nil, 0
	m.dom = map[*Term]bset{}
	m.entangled = map[*Term]bool{}
	m.ndlog, m.obs, m.covers = nil, nil, nil
	m.nvar = 0
	m.unknown = false
	m.par = nil
	m.poolFree = map[*Value][]Value{}
	m.dumpCache = nil
	m.onces, m.syncMaps = nil, nil
	m.ufApps = nil
	m.reCompiles = nil
	m.refine = nil
	m.globals = map[*ssa.Global]*Value{}
	if m.ex.initState != nil {
		// a private copy of the state the repository's package initialisers left behind
		c := newCloner()
		for g, p := range m.ex.initState {
			m.globals[g] = c.val(p).(*Value)
		}
		return
	}
	for _, g := range m.ex.repoGlobals {
		v := zero(g.Type().Underlying().(*types.Pointer).Elem())
		m.globals[g] = &v
	}
}

// addPC appends a constraint to the path condition and updates the byte domains.
func (m *Machine) addPC(c *Term) {
	if c == nil || c == tTrue {
		return
	}
	m.pc = append(m.pc, c)
	m.noteConstraint(c)
}

func (m *Machine) noteConstraint(c *Term) {
	if c.Op == "and" {
		for _, a := range c.Args {
			m.noteConstraint(a)
		}
		return
	}
	if v, s, ok := unarySet(c); ok {
		d, has := m.dom[v]
		if !has {
			d = fullSet
		}
		m.dom[v] = d.and(s)
		return
	}
	for _, v := range c.vars {
		m.entangled[v] = true
	}
}

// quickFeasible decides pc ∧ c without the solver when c is a conjunction of
// unary byte constraints over variables that no non-unary constraint mentions.
// Returns (answer, decided).
func (m *Machine) quickFeasible(c *Term) (bool, bool) {
	var conj []*Term
	if c.Op == "and" {
		conj = c.Args
	} else {
		conj = []*Term{c}
	}
	var local map[*Term]bset
	for _, a := range conj {
		v, s, ok := unarySet(a)
		if !ok || m.entangled[v] {
			return false, false
		}
		var d bset
		if local != nil {
			if x, has := local[v]; has {
				d = x
				goto have
			}
		}
		if x, has := m.dom[v]; has {
			d = x
		} else {
			d = fullSet
		}
	have:
		d = d.and(s)
		if d.empty() {
			return false, true
		}
		if len(conj) > 1 {
			if local == nil {
				local = map[*Term]bset{}
			}
			local[v] = d
		}
	}
	return true, true
}

func (m *Machine) feasible(c *Term) bool {
	if ans, ok := m.quickFeasible(c); ok {
		m.filterHits++
		return ans
	}
	r, _ := m.solver.Sat(m.pc, nil, c)
	if r == resUnknown {
		m.unknown = true
		m.ex.noteUnknown("feasibility")
		return true
	}
	return r == resSat
}

// choose performs an n-way fork. conds[i]==nil means "free" (always feasible).
func (m *Machine) choose(conds []*Term) int {
	if m.pos < len(m.prefix) {
		d := m.prefix[m.pos]
		m.pos++
		m.trail = append(m.trail, d)
		if d >= len(conds) {
			panic(engineErr{"replayed decision out of range (non-deterministic harness?)"})
		}
		m.addPC(conds[d])
		return d
	}
	var feas []int
	for i, c := range conds {
		if c == tFalse {
			continue
		}
		if c == nil || c == tTrue {
			feas = append(feas, i)
			continue
		}
		if m.feasible(c) {
			feas = append(feas, i)
		}
	}
	if len(feas) == 0 {
		panic(abortPath{"infeasible"})
	}
	if len(feas) > 1 {
		m.forks++
		if debugForks {
			var pcs [8]uintptr
			n := runtime.Callers(2, pcs[:])
			fr := runtime.CallersFrames(pcs[:n])
			var names []string
			for {
				f, more := fr.Next()
				names = append(names, f.Function[strings.LastIndexByte(f.Function, '.')+1:])
				if !more || len(names) >= 4 {
					break
				}
			}
			fmt.Fprintln(os.Stderr, "FORK", len(feas), names)
		}
	}
	for _, alt := range feas[1:] {
		p := make([]int, len(m.trail)+1)
		copy(p, m.trail)
		p[len(m.trail)] = alt
		m.ex.push(p)
	}
	d := feas[0]
	m.pos++
	m.prefix = append(m.prefix, d)
	m.trail = append(m.trail, d)
	m.addPC(conds[d])
	return d
}

func (m *Machine) branch(b Bool) bool {
	if b.T == nil {
		return b.B
	}
	return m.choose([]*Term{b.T, tNot(b.T)}) == 0
}

func (m *Machine) branchIn(fr *frame, b Bool) bool {
	if b.T == nil {
		return b.B
	}
	if fr != nil {
		m.fnBranches[fr.fn]++
	}
	return m.choose([]*Term{b.T, tNot(b.T)}) == 0
}

func (m *Machine) freshVar(name string, w int) *Term {
	m.nvar++
	v := bvVar(fmt.Sprintf("%s_%d", name, m.nvar), w)
	m.vars = append(m.vars, v)
	return v
}

func (m *Machine) get(fr *frame, v ssa.Value) Value {
	switch x := v.(type) {
	case *ssa.Const:
		return constValue(x)
	case *ssa.Global:
		p, ok := m.globals[x]
		if !ok {
			p = m.depGlobal(x)
			if p == nil {
				unsupported("global %s not initialised (init of dependency packages is not run)", x)
			}
		}
		return p
	case *ssa.Function:
		return &Closure{Fn: x}
	case *ssa.Builtin:
		return x
	}
	r, ok := fr.env[v]
	if !ok {
		unsupported("no value for %s in %s", v.Name(), fr.fn)
	}
	return r
}

func (m *Machine) callValue(fr *frame, fv Value, args []Value) Value {
	switch f := fv.(type) {
	case *Closure:
		if f == nil {
			m.fault(fr, nil, "invalid memory address or nil pointer dereference (call of nil func)")
		}
		return m.callFn(fr, f.Fn, args, f.Env)
	case *ssa.Builtin:
		return m.callBuiltin(fr, f, args)
	}
	unsupported("call of %T", fv)
	return nil
}

var fnNameCache sync.Map

func fnName(fn *ssa.Function) string {
	if s, ok := fnNameCache.Load(fn); ok {
		return s.(string)
	}
	var s string
	if o := fn.Origin(); o != nil {
		s = o.String()
	} else {
		s = fn.String()
	}
	fnNameCache.Store(fn, s)
	return s
}

func (m *Machine) callFn(caller *frame, fn *ssa.Function, args []Value, env []Value) Value {
	name := fnName(fn)
	if h, ok := intrinsics[name]; ok {
		if v := h(m, caller, fn, args); v != notHandled {
			return v
		}
	}
	if fn.Name() == "init" && fn.Pkg != nil && !isRepoPkg(fn.Pkg) && fn.Signature.Recv() == nil {
		return nil // dependency package initialisers are not run
	}
	if fn.Pkg != nil && fn.Pkg.Pkg.Path() == "regexp" {
		if v, ok := m.nativeRegexpCall(fn, args); ok {
			return v
		}
	}
	if fn.Blocks == nil {
		unsupported("external function %s", name)
	}
	fr := &frame{caller: caller, fn: fn, env: make(map[ssa.Value]Value, 16)}
	for i, p := range fn.Params {
		fr.env[p] = args[i]
	}
	for i, fv := range fn.FreeVars {
		fr.env[fv] = env[i]
	}
	fr.block = fn.Blocks[0]
	for fr.block != nil {
		m.runFrame(fr)
	}
	return fr.result
}

func zeroResults(sig *types.Signature) Value {
	r := sig.Results()
	switch r.Len() {
	case 0:
		return nil
	case 1:
		return zero(r.At(0).Type())
	}
	return zero(r)
}

func (m *Machine) runFrame(fr *frame) {
	defer func() {
		if fr.block == nil {
			return
		}
		r := recover()
		gp, ok := r.(goPanic)
		if !ok {
			panic(r)
		}
		fr.panicking = true
		fr.panicVal = gp
		m.runDefers(fr)
		fr.block = fr.fn.Recover
		if fr.block == nil {
			// named results keep the values assigned by deferred functions
			fr.result = m.namedResults(fr)
		}
	}()
	for {
		blk := fr.block
		jumped := false
		for _, instr := range blk.Instrs {
			m.steps++
			if m.steps > maxSteps {
				panic(engineErr{"step budget exceeded"})
			}
			switch m.visit(fr, instr) {
			case kReturn:
				fr.block = nil
				return
			case kJump:
				jumped = true
			}
			if jumped {
				break
			}
		}
		if !jumped {
			unsupported("block fell through in %s", fr.fn)
		}
	}
}

func (m *Machine) namedResults(fr *frame) Value {
	return zeroResults(fr.fn.Signature)
}

func (m *Machine) runDefers(fr *frame) {
	for len(fr.defers) > 0 {
		d := fr.defers[len(fr.defers)-1]
		fr.defers = fr.defers[:len(fr.defers)-1]
		m.runDefer(fr, d)
	}
	if fr.panicking {
		panic(fr.panicVal)
	}
}

func (m *Machine) runDefer(fr *frame, d *deferred) {
	ok := false
	defer func() {
		if !ok {
			r := recover()
			gp, isGo := r.(goPanic)
			if !isGo {
				panic(r)
			}
			fr.panicking = true
			fr.panicVal = gp
		}
	}()
	m.callValue(fr, d.fn, d.args)
	ok = true
}

const (
	kNext = iota
	kJump
	kReturn
)

func (m *Machine) where(fr *frame, in ssa.Instruction) string {
	if fr == nil {
		return "?"
	}
	name := fr.fn.Name()
	if o := fr.fn.Origin(); o != nil {
		name = o.Name()
	}
	if r := fr.fn.Signature.Recv(); r != nil {
		t := r.Type()
		if p, ok := t.(*types.Pointer); ok {
			t = p.Elem()
		}
		if n, ok := t.(*types.Named); ok {
			name = n.Obj().Name() + "." + name
		}
	}
	if in == nil {
		return name
	}
	pos := m.prog.Fset.Position(in.Pos())
	if !pos.IsValid() {
		return name
	}
	return fmt.Sprintf("%s (%s:%d)", name, shortFile(pos.Filename), pos.Line)
}

func shortFile(f string) string {
	if i := strings.LastIndexByte(f, '/'); i >= 0 {
		return f[i+1:]
	}
	return f
}

// fault raises a Go runtime panic (index out of range, nil dereference, ...).
func (m *Machine) fault(fr *frame, in ssa.Instruction, msg string) {
	panic(goPanic{v: runtimeErr(msg), site: m.where(fr, in)})
}

func (m *Machine) callCommon(fr *frame, c *ssa.CallCommon, in ssa.Instruction) (Value, []Value) {
	var args []Value
	var fv Value
	if c.IsInvoke() {
		recv := m.get(fr, c.Value).(Iface)
		if recv.T == nil {
			m.fault(fr, in, "invalid memory address or nil pointer dereference (method call on nil interface)")
		}
		if recv.T == rtErrType || recv.T == opaqueErrType {
			if c.Method.Name() == "Error" {
				return &Closure{Fn: nil}, []Value{recv.V}
			}
		}
		f := m.prog.LookupMethod(recv.T, c.Method.Pkg(), c.Method.Name())
		if f == nil {
			unsupported("method %s not found on %s", c.Method.Name(), recv.T)
		}
		fv = &Closure{Fn: f}
		args = append(args, recv.V)
	} else {
		fv = m.get(fr, c.Value)
	}
	for _, a := range c.Args {
		args = append(args, m.get(fr, a))
	}
	return fv, args
}

func (m *Machine) visit(fr *frame, instr ssa.Instruction) int {
	if m.ex.trace {
		fmt.Fprintf(os.Stderr, "  %s: %s\n", fr.fn.Name(), instr)
	}
	m.fnSteps[fr.fn]++
	m.curFn = fr.fn
	switch in := instr.(type) {
	case *ssa.DebugRef:
	case *ssa.UnOp:
		fr.env[in] = m.unop(fr, in)
	case *ssa.BinOp:
		fr.env[in] = m.binop(fr, in, in.Op, in.X.Type(), m.get(fr, in.X), m.get(fr, in.Y))
	case *ssa.Call:
		fv, args := m.callCommon(fr, in.Common(), in)
		if c, ok := fv.(*Closure); ok && c != nil && c.Fn == nil { // opaque Error()
			fr.env[in] = args[0]
		} else {
			if c, ok := fv.(*Closure); ok && c == nil {
				m.fault(fr, in, "invalid memory address or nil pointer dereference (call of nil func)")
			}
			fr.env[in] = m.callValue(fr, fv, args)
		}
	case *ssa.ChangeInterface:
		fr.env[in] = m.get(fr, in.X)
	case *ssa.ChangeType:
		fr.env[in] = m.get(fr, in.X)
	case *ssa.Convert:
		fr.env[in] = m.convert(in.X.Type(), in.Type(), m.get(fr, in.X))
	case *ssa.MakeInterface:
		fr.env[in] = Iface{T: in.X.Type(), V: m.get(fr, in.X)}
	case *ssa.Extract:
		fr.env[in] = m.get(fr, in.Tuple).(Tuple)[in.Index]
	case *ssa.Slice:
		fr.env[in] = m.slice(fr, in)
	case *ssa.Return:
		switch len(in.Results) {
		case 0:
		case 1:
			fr.result = m.get(fr, in.Results[0])
		default:
			t := make(Tuple, len(in.Results))
			for i, r := range in.Results {
				t[i] = m.get(fr, r)
			}
			fr.result = t
		}
		return kReturn
	case *ssa.RunDefers:
		m.runDefers(fr)
	case *ssa.Panic:
		panic(goPanic{v: m.get(fr, in.X), site: m.where(fr, in)})
	case *ssa.Store:
		p, ok := m.get(fr, in.Addr).(*Value)
		if !ok {
			unsupported("store through %T", m.get(fr, in.Addr))
		}
		if p == nil {
			m.fault(fr, in, "invalid memory address or nil pointer dereference (store)")
		}
		m.access(p, true, fr, in)
		assignInPlace(p, m.get(fr, in.Val))
	case *ssa.If:
		c := m.get(fr, in.Cond).(Bool)
		succ := 1
		if m.branchIn(fr, c) {
			succ = 0
		}
		fr.prev, fr.block = fr.block, fr.block.Succs[succ]
		return kJump
	case *ssa.Jump:
		fr.prev, fr.block = fr.block, fr.block.Succs[0]
		return kJump
	case *ssa.Defer:
		fv, args := m.callCommon(fr, in.Common(), in)
		fr.defers = append(fr.defers, &deferred{fv, args})
	case *ssa.MakeClosure:
		var env []Value
		for _, b := range in.Bindings {
			env = append(env, m.get(fr, b))
		}
		fr.env[in] = &Closure{Fn: in.Fn.(*ssa.Function), Env: env}
	case *ssa.Phi:
		for i, pred := range in.Block().Preds {
			if fr.prev == pred {
				fr.env[in] = m.get(fr, in.Edges[i])
				break
			}
		}
	case *ssa.Alloc:
		v := zero(in.Type().Underlying().(*types.Pointer).Elem())
		fr.env[in] = &v
	case *ssa.MakeSlice:
		n := m.concInt(m.get(fr, in.Len))
		c := m.concInt(m.get(fr, in.Cap))
		if n < 0 || c < n {
			m.fault(fr, in, "makeslice: len out of range")
		}
		s := make([]Value, n, c)
		et := in.Type().Underlying().(*types.Slice).Elem()
		for i := range s {
			s[i] = zero(et)
		}
		fr.env[in] = s
	case *ssa.MakeMap:
		fr.env[in] = newMap()
	case *ssa.MapUpdate:
		mp := m.get(fr, in.Map).(*Map)
		if mp == nil {
			m.fault(fr, in, "assignment to entry in nil map")
		}
		m.access(mp, true, fr, in)
		m.mapUpdate(mp, m.get(fr, in.Key), copyVal(m.get(fr, in.Value)))
	case *ssa.Lookup:
		fr.env[in] = m.lookup(fr, in)
	case *ssa.Range:
		fr.env[in] = m.rangeIter(fr, in)
	case *ssa.Next:
		fr.env[in] = m.get(fr, in.Iter).(iter).next(m)
	case *ssa.FieldAddr:
		p := m.get(fr, in.X).(*Value)
		if p == nil {
			m.fault(fr, in, "invalid memory address or nil pointer dereference")
		}
		fr.env[in] = &(*p).(Struct)[in.Field]
	case *ssa.Field:
		fr.env[in] = copyVal(m.get(fr, in.X).(Struct)[in.Field])
	case *ssa.IndexAddr:
		x := m.get(fr, in.X)
		if cell, ok := m.symSelect(fr, in, x, m.get(fr, in.Index), isSignedType(in.Index.Type())); ok {
			fr.env[in] = cell
			break
		}
		i := m.concIntT(fr, m.get(fr, in.Index), isSignedType(in.Index.Type()))
		switch a := x.(type) {
		case []Value:
			if i < 0 || i >= len(a) {
				m.fault(fr, in, fmt.Sprintf("index out of range [%d] with length %d", i, len(a)))
			}
			fr.env[in] = &a[i]
		case *Value:
			if a == nil {
				m.fault(fr, in, "invalid memory address or nil pointer dereference (nil array pointer)")
			}
			arr := (*a).(Array)
			if i < 0 || i >= len(arr) {
				m.fault(fr, in, fmt.Sprintf("index out of range [%d] with length %d", i, len(arr)))
			}
			fr.env[in] = &arr[i]
		default:
			unsupported("IndexAddr on %T", x)
		}
	case *ssa.Index:
		x := m.get(fr, in.X)
		i := m.concIntT(fr, m.get(fr, in.Index), isSignedType(in.Index.Type()))
		switch a := x.(type) {
		case Array:
			if i < 0 || i >= len(a) {
				m.fault(fr, in, fmt.Sprintf("index out of range [%d] with length %d", i, len(a)))
			}
			fr.env[in] = copyVal(a[i])
		case Str:
			if i < 0 || i >= len(a.S) {
				m.fault(fr, in, fmt.Sprintf("index out of range [%d] with length %d", i, len(a.S)))
			}
			fr.env[in] = a.at(i)
		default:
			unsupported("Index on %T", x)
		}
	case *ssa.TypeAssert:
		fr.env[in] = m.typeAssert(fr, in, m.get(fr, in.X).(Iface))
	default:
		unsupported("instruction %T: %s", instr, instr)
	}
	return kNext
}

// symSelect handles t[i] for a symbolic index i when the element address is only ever loaded from
// (table look-ups such as class[b&0x7f]) and the elements are integers or booleans: instead of
// forking over every feasible index, the path forks once on "index in range" and the loaded value
// becomes an if-then-else chain over the elements. The result is a fresh read-only cell.
func (m *Machine) symSelect(fr *frame, in *ssa.IndexAddr, x, idx Value, signed bool) (*Value, bool) {
	iv, ok := idx.(Int)
	if !ok || iv.T == nil {
		return nil, false
	}
	refs := in.Referrers()
	if refs == nil || len(*refs) == 0 {
		return nil, false
	}
	for _, r := range *refs {
		if u, ok := r.(*ssa.UnOp); !ok || u.Op != token.MUL {
			if _, dbg := r.(*ssa.DebugRef); !dbg {
				return nil, false
			}
		}
	}
	var elems []Value
	switch a := x.(type) {
	case []Value:
		elems = a
	case *Value:
		if a == nil {
			return nil, false
		}
		arr, ok := (*a).(Array)
		if !ok {
			return nil, false
		}
		elems = arr
	default:
		return nil, false
	}
	if len(elems) < 2 || len(elems) > 512 {
		return nil, false
	}
	w := 0
	isBool := false
	switch e := elems[0].(type) {
	case Int:
		_ = e
		et := in.Type().Underlying().(*types.Pointer).Elem().Underlying()
		ww, _, ok := intInfo(et)
		if !ok {
			return nil, false
		}
		w = ww
	case Bool:
		isBool = true
	default:
		return nil, false
	}
	for _, e := range elems {
		switch e.(type) {
		case Int:
			if isBool {
				return nil, false
			}
		case Bool:
			if !isBool {
				return nil, false
			}
		default:
			return nil, false
		}
	}
	// bounds: one fork
	iw := iv.T.W
	var inRange *Term
	switch {
	case !signed && iw < 64 && uint64(len(elems)) >= uint64(1)<<uint(iw):
		// every value of the index type is in range (a byte indexing a 256-entry table)
	case !signed:
		inRange = tBin("bvult", 0, iv.T, bvConst(uint64(len(elems)), iw))
	case iw < 64 && uint64(len(elems)) >= uint64(1)<<uint(iw-1):
		inRange = tBin("bvsge", 0, iv.T, bvConst(0, iw))
	default:
		inRange = tAnd(tBin("bvsge", 0, iv.T, bvConst(0, iw)), tBin("bvslt", 0, iv.T, bvConst(uint64(len(elems)), iw)))
	}
	if inRange != nil && !m.branchIn(fr, mkBool(inRange)) {
		m.fault(fr, in, fmt.Sprintf("index out of range [symbolic] with length %d", len(elems)))
	}
	var out Value
	if isBool {
		var t *Term
		for k := len(elems) - 1; k >= 0; k-- {
			e := elems[k].(Bool)
			et := e.T
			if et == nil {
				if e.B {
					et = tEq(iv.T, iv.T)
				} else {
					et = tNot(tEq(iv.T, iv.T))
				}
			}
			if t == nil {
				t = et
			} else {
				t = tIte(tEq(iv.T, bvConst(uint64(k), iw)), et, t)
			}
		}
		out = mkBool(t)
	} else {
		var t *Term
		for k := len(elems) - 1; k >= 0; k-- {
			et := elems[k].(Int).term(w)
			if t == nil {
				t = et
			} else {
				t = tIte(tEq(iv.T, bvConst(uint64(k), iw)), et, t)
			}
		}
		out = Int{T: t}
	}
	cell := new(Value)
	*cell = out
	return cell, true
}

// assignInPlace stores v into the cell p. Structs and arrays are copied element by element into
// the existing cells, so that field and element addresses taken before the store stay valid (go/ssa
// may compute &s.f first and store a whole new value of s afterwards).
func assignInPlace(p *Value, v Value) {
	switch src := v.(type) {
	case Struct:
		if dst, ok := (*p).(Struct); ok && len(dst) == len(src) {
			for i := range src {
				assignInPlace(&dst[i], src[i])
			}
			return
		}
	case Array:
		if dst, ok := (*p).(Array); ok && len(dst) == len(src) {
			for i := range src {
				assignInPlace(&dst[i], src[i])
			}
			return
		}
	}
	*p = copyVal(v)
}

func (m *Machine) concInt(v Value) int { return m.concIntF(nil, v) }

// concIntF returns a concrete int; a symbolic value is concretised by forking
// over its feasible values (at most 512).
func (m *Machine) concIntF(fr *frame, v Value) int { return m.concIntT(fr, v, true) }

// concIntT: signed tells how a symbolic value of less than 64 bits is to be read (index
// expressions of unsigned type must not be sign-extended).
func (m *Machine) concIntT(fr *frame, v Value, signed bool) int {
	i := v.(Int)
	if i.T == nil {
		return int(int64(i.V))
	}
	// enumerate feasible values with the solver, then fork
	if m.pos < len(m.prefix) {
		// replaying: decisions are value indices into the same enumeration; recompute
	}
	var vals []uint64
	extra := []*Term{}
	for len(vals) < 513 {
		probe := bvVar(fmt.Sprintf("zz_probe%d", i.T.W), i.T.W)
		r, model := m.solver.Sat(m.pc, []*Term{probe}, append(append([]*Term{}, extra...), tEq(probe, i.T))...)
		if r == resUnknown {
			unsupported("solver unknown while concretising %s", i.T.str)
		}
		if r == resUnsat {
			break
		}
		x := model[probe.Name]
		vals = append(vals, x)
		extra = append(extra, tNot(tEq(i.T, bvConst(x, i.T.W))))
	}
	if len(vals) > 512 {
		unsupported("symbolic integer with more than 512 feasible values where a concrete one is required: %s", i.T.str)
	}
	if len(vals) == 0 {
		panic(abortPath{"infeasible"})
	}
	// deterministic order so that replayed prefixes agree
	for a := 1; a < len(vals); a++ {
		for b := a; b > 0 && vals[b] < vals[b-1]; b-- {
			vals[b], vals[b-1] = vals[b-1], vals[b]
		}
	}
	conds := make([]*Term, len(vals))
	for k, x := range vals {
		conds[k] = tEq(i.T, bvConst(x, i.T.W))
	}
	d := m.choose(conds)
	if !signed {
		return int(vals[d] & mask(i.T.W))
	}
	return int(sx(vals[d], i.T.W))
}

func isSignedType(t types.Type) bool {
	_, s, ok := intInfo(t)
	return !ok || s
}

func (m *Machine) typeAssert(fr *frame, in *ssa.TypeAssert, x Iface) Value {
	var ok bool
	var res Value
	if it, isIface := in.AssertedType.Underlying().(*types.Interface); isIface {
		ok = x.T != nil && (types.Implements(x.T, it) || (x.T == rtErrType && it.NumMethods() <= 2) || (x.T == opaqueErrType && it.NumMethods() == 1 && it.Method(0).Name() == "Error"))
		res = x
		if !ok {
			res = Iface{}
		}
	} else {
		ok = x.T != nil && types.Identical(x.T, in.AssertedType)
		if ok {
			res = x.V
		} else {
			res = zero(in.AssertedType)
		}
	}
	if in.CommaOk {
		return Tuple{res, Bool{B: ok}}
	}
	if !ok {
		m.fault(fr, in, fmt.Sprintf("interface conversion: %v is not %v", x.T, in.AssertedType))
	}
	return res
}

func (m *Machine) unop(fr *frame, in *ssa.UnOp) Value {
	x := m.get(fr, in.X)
	switch in.Op {
	case token.MUL:
		p, ok := x.(*Value)
		if !ok {
			unsupported("load from %T", x)
		}
		if p == nil {
			m.fault(fr, in, "invalid memory address or nil pointer dereference")
		}
		m.access(p, false, fr, in)
		return copyVal(*p)
	case token.NOT:
		b := x.(Bool)
		if b.T == nil {
			return Bool{B: !b.B}
		}
		return mkBool(tNot(b.T))
	case token.SUB:
		switch v := x.(type) {
		case Int:
			w, s, _ := intInfo(in.X.Type())
			if v.T == nil {
				return Int{V: norm(-v.V, w, s)}
			}
			return Int{T: mk("bvneg", w, "", 0, v.T)}
		case Float:
			return Float{-v.V}
		}
	case token.XOR:
		v := x.(Int)
		w, s, _ := intInfo(in.X.Type())
		if v.T == nil {
			return Int{V: norm(^v.V, w, s)}
		}
		return Int{T: mk("bvnot", w, "", 0, v.T)}
	}
	unsupported("unop %s on %T", in.Op, x)
	return nil
}

func resize(t *Term, w int) *Term {
	switch {
	case t.W == w:
		return t
	case t.W < w:
		return mk("zext", w, "", uint64(w-t.W), t)
	default:
		return mk("extract", w, "", uint64(w-1), t)
	}
}

func (m *Machine) binop(fr *frame, in ssa.Instruction, op token.Token, t types.Type, x, y Value) Value {
	switch a := x.(type) {
	case Int:
		b := y.(Int)
		w, signed, _ := intInfo(t)
		if w == 0 {
			unsupported("int binop on type %s", t)
		}
		if a.T == nil && b.T == nil {
			switch op {
			case token.EQL:
				return Bool{B: a.V == b.V}
			case token.NEQ:
				return Bool{B: a.V != b.V}
			case token.LSS, token.LEQ, token.GTR, token.GEQ:
				return Bool{B: cmpConc(op, a.V, b.V, signed)}
			case token.QUO, token.REM:
				if b.V == 0 {
					m.fault(fr, in, "integer divide by zero")
				}
			}
			r, ok := arith(op, a.V, b.V, w, signed)
			if !ok {
				unsupported("int op %s", op)
			}
			return Int{V: r}
		}
		ta, tb := a.term(w), b.term(w)
		if op == token.SHL || op == token.SHR {
			tb = resize(tb, w)
		}
		if ta.W != tb.W {
			unsupported("width mismatch %d %d in %s", ta.W, tb.W, op)
		}
		pick := func(s, u string) string {
			if signed {
				return s
			}
			return u
		}
		switch op {
		case token.EQL:
			return mkBool(tEq(ta, tb))
		case token.NEQ:
			return mkBool(tNot(tEq(ta, tb)))
		case token.LSS:
			return mkBool(tBin(pick("bvslt", "bvult"), 0, ta, tb))
		case token.LEQ:
			return mkBool(tBin(pick("bvsle", "bvule"), 0, ta, tb))
		case token.GTR:
			return mkBool(tBin(pick("bvsgt", "bvugt"), 0, ta, tb))
		case token.GEQ:
			return mkBool(tBin(pick("bvsge", "bvuge"), 0, ta, tb))
		case token.ADD:
			return Int{T: tBin("bvadd", w, ta, tb)}
		case token.SUB:
			return Int{T: tBin("bvsub", w, ta, tb)}
		case token.MUL:
			return Int{T: tBin("bvmul", w, ta, tb)}
		case token.AND:
			return Int{T: tBin("bvand", w, ta, tb)}
		case token.OR:
			return Int{T: tBin("bvor", w, ta, tb)}
		case token.XOR:
			return Int{T: tBin("bvxor", w, ta, tb)}
		case token.AND_NOT:
			return Int{T: tBin("bvand", w, ta, mk("bvnot", w, "", 0, tb))}
		case token.SHL:
			return Int{T: tBin("bvshl", w, ta, tb)}
		case token.SHR:
			return Int{T: tBin(pick("bvashr", "bvlshr"), w, ta, tb)}
		case token.QUO, token.REM:
			if b.T != nil {
				if m.branchIn(fr, mkBool(tEq(tb, bvConst(0, w)))) {
					m.fault(fr, in, "integer divide by zero")
				}
			} else if b.V == 0 {
				m.fault(fr, in, "integer divide by zero")
			}
			if op == token.QUO {
				return Int{T: tBin(pick("bvsdiv", "bvudiv"), w, ta, tb)}
			}
			return Int{T: tBin(pick("bvsrem", "bvurem"), w, ta, tb)}
		}
		unsupported("symbolic int op %s", op)
	case Bool:
		b := y.(Bool)
		var e *Term
		if a.T == nil && b.T == nil {
			e = tFalse
			if a.B == b.B {
				e = tTrue
			}
		} else {
			e = tEq(a.term(), b.term())
		}
		switch op {
		case token.EQL:
			return mkBool(e)
		case token.NEQ:
			return mkBool(tNot(e))
		}
	case Str:
		b := y.(Str)
		switch op {
		case token.ADD:
			return concat(a, b)
		case token.EQL:
			return mkBool(strEq(a, b))
		case token.NEQ:
			return mkBool(tNot(strEq(a, b)))
		case token.LSS, token.LEQ, token.GTR, token.GEQ:
			return mkBool(strCmp(op, a, b))
		}
	case Float:
		b := y.(Float)
		switch op {
		case token.EQL:
			return Bool{B: a.V == b.V}
		case token.NEQ:
			return Bool{B: a.V != b.V}
		case token.LSS:
			return Bool{B: a.V < b.V}
		case token.LEQ:
			return Bool{B: a.V <= b.V}
		case token.GTR:
			return Bool{B: a.V > b.V}
		case token.GEQ:
			return Bool{B: a.V >= b.V}
		case token.ADD:
			return Float{a.V + b.V}
		case token.SUB:
			return Float{a.V - b.V}
		case token.MUL:
			return Float{a.V * b.V}
		case token.QUO:
			return Float{a.V / b.V}
		}
	default:
		switch op {
		case token.EQL:
			return m.equal(x, y)
		case token.NEQ:
			e := m.equal(x, y)
			if e.T == nil {
				return Bool{B: !e.B}
			}
			return mkBool(tNot(e.T))
		}
	}
	unsupported("binop %s on %T,%T", op, x, y)
	return nil
}

// strCmp builds the lexicographic comparison of two (possibly symbolic) strings.
func strCmp(op token.Token, a, b Str) *Term {
	// lt(i): a[i:] < b[i:]
	n := len(a.S)
	if len(b.S) < n {
		n = len(b.S)
	}
	// at the common-prefix end: a<b iff len(a)<len(b)
	lt, eq := tFalse, tFalse
	if len(a.S) < len(b.S) {
		lt = tTrue
	}
	if len(a.S) == len(b.S) {
		eq = tTrue
	}
	for i := n - 1; i >= 0; i-- {
		x, y := a.byteTerm(i), b.byteTerm(i)
		e := tEq(x, y)
		lt = tOr(tBin("bvult", 0, x, y), tAnd(e, lt))
		eq = tAnd(e, eq)
	}
	switch op {
	case token.LSS:
		return lt
	case token.LEQ:
		return tOr(lt, eq)
	case token.GTR:
		return tNot(tOr(lt, eq))
	default:
		return tNot(lt)
	}
}

func (m *Machine) equal(x, y Value) Bool {
	switch a := x.(type) {
	case nil:
		return Bool{B: y == nil}
	case *Value:
		b, _ := y.(*Value)
		return Bool{B: a == b}
	case *Map:
		b, _ := y.(*Map)
		return Bool{B: a == b}
	case *Closure:
		b, _ := y.(*Closure)
		return Bool{B: a == b}
	case []Value:
		return Bool{B: a == nil && y.([]Value) == nil}
	case Native:
		b, ok := y.(Native)
		return Bool{B: ok && a.X == b.X}
	case Iface:
		b := y.(Iface)
		if a.T == nil || b.T == nil {
			return Bool{B: a.T == nil && b.T == nil}
		}
		if !types.Identical(a.T, b.T) {
			return Bool{B: false}
		}
		return m.equal(a.V, b.V)
	case Int:
		b := y.(Int)
		if a.T == nil && b.T == nil {
			return Bool{B: a.V == b.V}
		}
		w := 64
		if a.T != nil {
			w = a.T.W
		} else {
			w = b.T.W
		}
		return mkBool(tEq(a.term(w), b.term(w)))
	case Str:
		return mkBool(strEq(a, y.(Str)))
	case Bool:
		b := y.(Bool)
		return mkBool(tEq(a.term(), b.term()))
	case Float:
		return Bool{B: a.V == y.(Float).V}
	case Struct:
		b := y.(Struct)
		var cs []*Term
		for i := range a {
			cs = append(cs, m.equal(a[i], b[i]).term())
		}
		return mkBool(tAnd(cs...))
	case Array:
		b := y.(Array)
		var cs []*Term
		for i := range a {
			cs = append(cs, m.equal(a[i], b[i]).term())
		}
		return mkBool(tAnd(cs...))
	}
	unsupported("equality on %T", x)
	return Bool{}
}

func (m *Machine) convert(from, to types.Type, x Value) Value {
	fu, tu := from.Underlying(), to.Underlying()
	if v, ok := x.(Int); ok {
		if tw, tsigned, ok := intInfo(tu); ok {
			fw, fsigned, _ := intInfo(fu)
			if v.T == nil {
				return Int{V: norm(v.V, tw, tsigned)}
			}
			switch {
			case tw == fw:
				return v
			case tw > fw:
				if fsigned {
					return Int{T: mk("sext", tw, "", uint64(tw-fw), v.T)}
				}
				return Int{T: mk("zext", tw, "", uint64(tw-fw), v.T)}
			default:
				return Int{T: mk("extract", tw, "", uint64(tw-1), v.T)}
			}
		}
		if b, ok := tu.(*types.Basic); ok && b.Info()&types.IsString != 0 {
			if v.T != nil {
				unsupported("string(symbolic rune)")
			}
			return Str{S: string(rune(int64(v.V)))}
		}
		if b, ok := tu.(*types.Basic); ok && b.Info()&types.IsFloat != 0 {
			if v.T != nil {
				unsupported("float(symbolic int)")
			}
			_, fs, _ := intInfo(fu)
			if fs {
				return Float{float64(int64(v.V))}
			}
			return Float{float64(v.V)}
		}
	}
	if f, ok := x.(Float); ok {
		if b, ok := tu.(*types.Basic); ok && b.Info()&types.IsFloat != 0 {
			if b.Kind() == types.Float32 {
				return Float{float64(float32(f.V))}
			}
			return f
		}
		if tw, tsigned, ok := intInfo(tu); ok {
			if tsigned {
				return Int{V: norm(uint64(int64(f.V)), tw, true)}
			}
			return Int{V: norm(uint64(f.V), tw, false)}
		}
	}
	if s, ok := x.(Str); ok {
		if sl, ok := tu.(*types.Slice); ok {
			if w, _, _ := intInfo(sl.Elem()); w == 8 {
				out := make([]Value, len(s.S))
				for i := range out {
					out[i] = s.at(i)
				}
				return out
			}
			if w, _, _ := intInfo(sl.Elem()); w == 32 && s.isConc() {
				var out []Value
				for _, r := range s.S {
					out = append(out, Int{V: uint64(r)})
				}
				return out
			}
		}
		if b, ok := tu.(*types.Basic); ok && b.Info()&types.IsString != 0 {
			return s
		}
	}
	if sl, ok := x.([]Value); ok {
		if b, ok := tu.(*types.Basic); ok && b.Info()&types.IsString != 0 {
			return bytesToStr(sl)
		}
	}
	if bl, ok := x.(Blob); ok {
		_ = bl
		unsupported("conversion of an opaque blob")
	}
	if _, ok := tu.(*types.Pointer); ok {
		return x
	}
	if b, ok := tu.(*types.Basic); ok && b.Kind() == types.UnsafePointer {
		return x
	}
	unsupported("convert %s -> %s (%T)", from, to, x)
	return nil
}

func bytesToStr(sl []Value) Str {
	bs := make([]byte, len(sl))
	var sym []*Term
	for i, e := range sl {
		iv := e.(Int)
		if iv.T != nil {
			if sym == nil {
				sym = make([]*Term, len(sl))
			}
			sym[i] = iv.T
			bs[i] = '?'
		} else {
			bs[i] = byte(iv.V)
		}
	}
	return Str{S: string(bs), Sym: sym}
}

func (m *Machine) slice(fr *frame, in *ssa.Slice) Value {
	x := m.get(fr, in.X)
	idx := func(v ssa.Value, def int) int {
		if v == nil {
			return def
		}
		return m.concIntF(fr, m.get(fr, v))
	}
	switch a := x.(type) {
	case Str:
		lo, hi := idx(in.Low, 0), idx(in.High, len(a.S))
		if lo < 0 || hi > len(a.S) || lo > hi {
			m.fault(fr, in, fmt.Sprintf("slice bounds out of range [%d:%d] with length %d", lo, hi, len(a.S)))
		}
		return a.slice(lo, hi)
	case []Value:
		lo, hi := idx(in.Low, 0), idx(in.High, len(a))
		mx := idx(in.Max, cap(a))
		if lo < 0 || hi > cap(a) || lo > hi || mx > cap(a) || hi > mx {
			m.fault(fr, in, fmt.Sprintf("slice bounds out of range [%d:%d:%d] with capacity %d", lo, hi, mx, cap(a)))
		}
		if a == nil {
			return a
		}
		return a[lo:hi:mx]
	case *Value:
		if a == nil {
			m.fault(fr, in, "invalid memory address or nil pointer dereference (slice of nil array pointer)")
		}
		arr := []Value((*a).(Array))
		lo, hi := idx(in.Low, 0), idx(in.High, len(arr))
		mx := idx(in.Max, cap(arr))
		if lo < 0 || hi > len(arr) || lo > hi || mx > len(arr) || hi > mx {
			m.fault(fr, in, fmt.Sprintf("slice bounds out of range [%d:%d] with length %d", lo, hi, len(arr)))
		}
		return arr[lo:hi:mx]
	}
	unsupported("slice of %T", x)
	return nil
}

func (m *Machine) mapFind(mp *Map, key Value) int {
	if mp == nil {
		return -1
	}
	if k, ok := hashKey(key); ok {
		if i, ok := mp.idx[k]; ok && mp.live[i] {
			return i
		}
		for i := range mp.keys {
			if !mp.live[i] {
				continue
			}
			if _, h := hashKey(mp.keys[i]); h {
				continue
			}
			if m.branch(m.equal(key, mp.keys[i])) {
				return i
			}
		}
		return -1
	}
	for i := range mp.keys {
		if !mp.live[i] {
			continue
		}
		if m.branch(m.equal(key, mp.keys[i])) {
			return i
		}
	}
	return -1
}

func (m *Machine) mapUpdate(mp *Map, key, val Value) {
	if i := m.mapFind(mp, key); i >= 0 {
		mp.vals[i] = val
		return
	}
	mp.keys = append(mp.keys, key)
	mp.vals = append(mp.vals, val)
	mp.live = append(mp.live, true)
	if k, ok := hashKey(key); ok {
		mp.idx[k] = len(mp.keys) - 1
	}
	mp.n++
}

func (m *Machine) mapDelete(mp *Map, key Value) {
	if i := m.mapFind(mp, key); i >= 0 {
		mp.live[i] = false
		mp.n--
		if k, ok := hashKey(mp.keys[i]); ok {
			delete(mp.idx, k)
		}
	}
}

func (m *Machine) lookup(fr *frame, in *ssa.Lookup) Value {
	x := m.get(fr, in.X)
	switch a := x.(type) {
	case Str:
		i := m.concIntT(fr, m.get(fr, in.Index), isSignedType(in.Index.Type()))
		if i < 0 || i >= len(a.S) {
			m.fault(fr, in, fmt.Sprintf("index out of range [%d] with length %d", i, len(a.S)))
		}
		return a.at(i)
	case *Map:
		if a != nil {
			m.access(a, false, fr, in)
		}
		et := in.X.Type().Underlying().(*types.Map).Elem()
		if a != nil && a.wild != nil {
			return a.wild(m, m.get(fr, in.Index), in.CommaOk)
		}
		i := m.mapFind(a, m.get(fr, in.Index))
		var v Value
		if i >= 0 {
			v = copyVal(a.vals[i])
		} else {
			v = zero(et)
		}
		if in.CommaOk {
			return Tuple{v, Bool{B: i >= 0}}
		}
		return v
	}
	unsupported("lookup on %T", x)
	return nil
}

type iter interface{ next(m *Machine) Value }

type mapIter struct {
	keys, vals []Value
	i          int
}

func (it *mapIter) next(m *Machine) Value {
	if it.i >= len(it.keys) {
		return Tuple{Bool{B: false}, nil, nil}
	}
	it.i++
	return Tuple{Bool{B: true}, it.keys[it.i-1], it.vals[it.i-1]}
}

type strIter struct {
	s      Str
	pos    int
	lazyAt int   // >=0: the width of the rune at this position is not resolved yet
	lazyR  *Term // the rune variable handed out for it
}

// next implements range-over-string. For a symbolic non-ASCII lead byte the rune
// is handed out as a variable R >= 0x80 and the (forking) UTF-8 decoding is
// postponed until the position of the following rune is needed; loops that stop
// at the first non-ASCII rune (MatchDigit, MatchWord, validOptionalPort) never
// pay for it. R is tied to the bytes when the width is resolved.
func (it *strIter) next(m *Machine) Value {
	if it.lazyAt >= 0 {
		r, w := m.decodeRune(it.s, it.lazyAt)
		m.addPC(tEq(it.lazyR, r.term(32)))
		it.pos = it.lazyAt + w
		it.lazyAt = -1
	}
	if it.pos >= len(it.s.S) {
		return Tuple{Bool{B: false}, Int{}, Int{}}
	}
	p := it.pos
	if lead := it.s.at(p); lead.T != nil {
		if m.branch(mkBool(tBin("bvult", 0, lead.T, bvConst(0x80, 8)))) {
			it.pos++
			return Tuple{Bool{B: true}, Int{V: uint64(p)}, Int{T: mk("zext", 32, "", 24, lead.T)}}
		}
		R := m.freshVar("rune", 32)
		m.addPC(tAnd(tBin("bvuge", 0, R, bvConst(0x80, 32)), tBin("bvule", 0, R, bvConst(0x10ffff, 32))))
		it.lazyAt, it.lazyR = p, R
		return Tuple{Bool{B: true}, Int{V: uint64(p)}, Int{T: R}}
	}
	r, w := m.decodeRune(it.s, p)
	it.pos += w
	return Tuple{Bool{B: true}, Int{V: uint64(p)}, r}
}

func (m *Machine) rangeIter(fr *frame, in *ssa.Range) Value {
	x := m.get(fr, in.X)
	switch a := x.(type) {
	case Str:
		return &strIter{s: a, lazyAt: -1}
	case *Map:
		it := &mapIter{}
		if a != nil {
			m.access(a, false, fr, in)
			for i := range a.keys {
				if a.live[i] {
					it.keys = append(it.keys, a.keys[i])
					it.vals = append(it.vals, a.vals[i])
				}
			}
			if m.ex.mapReverse {
				for i, j := 0, len(it.keys)-1; i < j; i, j = i+1, j-1 {
					it.keys[i], it.keys[j] = it.keys[j], it.keys[i]
					it.vals[i], it.vals[j] = it.vals[j], it.vals[i]
				}
			}
		}
		return it
	}
	unsupported("range over %T", x)
	return nil
}

func (m *Machine) callBuiltin(fr *frame, b *ssa.Builtin, args []Value) Value {
	switch b.Name() {
	case "len":
		switch a := args[0].(type) {
		case Str:
			return Int{V: uint64(len(a.S))}
		case []Value:
			return Int{V: uint64(len(a))}
		case *Map:
			if a == nil {
				return Int{}
			}
			m.access(a, false, fr, nil)
			return Int{V: uint64(a.n)}
		case Array:
			return Int{V: uint64(len(a))}
		case Blob:
			return a.Len
		}
	case "cap":
		if a, ok := args[0].([]Value); ok {
			return Int{V: uint64(cap(a))}
		}
	case "append":
		a := args[0].([]Value)
		switch t := args[1].(type) {
		case []Value:
			if len(t) == 0 {
				return a
			}
			c := make([]Value, len(t))
			for i := range t {
				c[i] = copyVal(t[i])
			}
			r := append(a, c...)
			if m.par != nil && len(a)+len(c) <= cap(a) {
				// appended in place: the slots of the shared backing array are written
				for i := len(a); i < len(r); i++ {
					m.access(&r[i], true, fr, nil)
				}
			}
			return r
		case Str:
			for i := 0; i < len(t.S); i++ {
				a = append(a, t.at(i))
			}
			return a
		}
	case "copy":
		dst := args[0].([]Value)
		switch src := args[1].(type) {
		case []Value:
			tmp := make([]Value, len(src))
			for i := range src {
				tmp[i] = copyVal(src[i])
			}
			return Int{V: uint64(copy(dst, tmp))}
		case Str:
			n := 0
			for i := 0; i < len(src.S) && i < len(dst); i++ {
				dst[i] = src.at(i)
				n++
			}
			return Int{V: uint64(n)}
		}
	case "delete":
		if mp := args[0].(*Map); mp != nil {
			m.access(mp, true, fr, nil)
			m.mapDelete(mp, args[1])
		}
		return nil
	case "clear":
		switch a := args[0].(type) {
		case *Map:
			if a != nil {
				m.access(a, true, fr, nil)
				*a = *newMap()
			}
		case []Value:
			for i := range a {
				a[i] = zeroLike(a[i])
			}
		}
		return nil
	case "recover":
		if fr.caller != nil && fr.caller.panicking {
			fr.caller.panicking = false
			return fr.caller.panicVal.v
		}
		return Iface{}
	case "ssa:wrapnilchk":
		if p, ok := args[0].(*Value); ok && p == nil {
			m.fault(fr, nil, "value method called using nil pointer")
		}
		return args[0]
	case "print", "println":
		return nil
	case "min", "max":
		x, y := args[0].(Int), args[1].(Int)
		if x.T == nil && y.T == nil {
			if (b.Name() == "min") == (int64(x.V) < int64(y.V)) {
				return x
			}
			return y
		}
	}
	unsupported("builtin %s(%T...)", b.Name(), args[0])
	return nil
}

func zeroLike(v Value) Value {
	switch x := v.(type) {
	case Int:
		return Int{}
	case Bool:
		return Bool{}
	case Str:
		return Str{}
	case *Value:
		return (*Value)(nil)
	case *Map:
		return (*Map)(nil)
	case *Closure:
		return (*Closure)(nil)
	case []Value:
		return []Value(nil)
	case Iface:
		return Iface{}
	case Struct:
		c := make(Struct, len(x))
		for i := range x {
			c[i] = zeroLike(x[i])
		}
		return c
	}
	return nil
}
