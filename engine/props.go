package main

func seq(base int, tables []int, n int) []int {
	var out []int
	for _, t := range tables {
		out = append(out, t*100+n+base)
	}
	return out
}

var stdStubs = []string{
	"strings.Index/IndexByte/LastIndexByte/Count: engine intrinsics that fork on the match position",
	"strings.Builder, strings.Join: engine intrinsics",
	"regexp.Compile on a concrete expression: the real regexp package; matching symbolic text: a backtracking VM over the real regexp/syntax program of that expression (leftmost-first)",
	"sync.Pool: Get returns the most recently Put object, else New()",
	"fmt.Errorf/Sprintf: opaque values carrying the format string",
	"net/textproto.CanonicalMIMEHeaderKey on concrete header names: the real function",
}

var propSpecs = []propSpec{
	{
		id: "C01",
		runs: []runSpec{
			{dir: "mux", entry: "ZZC01", quick: append(seq(0, []int{0, 1, 2, 3, 4, 5, 6, 7, 8, 9, 10, 11, 12, 13, 14, 15, 16, 17, 18, 19, 20, 21, 22, 23}, 8), 2406), thorough: append(seq(0, []int{0, 1, 2, 3, 4, 5, 6, 7, 8, 9, 10, 11, 12, 13, 14, 15, 16, 17, 18, 19, 20, 21, 22, 23}, 10), 2407)}, // table 24 (ignored parameters at the end: the oracle searches their values) with shorter paths
		},
		covers:  []string{"404", "405", "options", "options-star", "served", "served-with-params"},
		bounds:  "request path: every byte string of length <= 8 (all 256 byte values); method: each of GET HEAD POST OPTIONS DELETE PUT TRACE \"\" BOGUS plus every string of <= 3 free bytes; 25 route-table histories (Handle/Remove/Clean/Prefix.Clean, <= 10 operations) over literal, named, regexp (also with capture groups of their own), interceptor, ignored-name, endpoint, non-ASCII-literal and >=5-sibling shapes; interceptors digit/word/any and an arbitrary user-defined interceptor (an uninterpreted predicate: the verdict holds for every pure interceptor function; a counterexample carries the function table of the model)",
		boundsT: "as quick, request path length <= 10",
		outside: "longer paths; route tables other than the 8 listed histories; regexp rules other than \\d+ [a-z]+ [a-c]+ \\w* a|b a|bc; interceptor functions with side effects; patterns with braces in literal text; for patterns with '-' (ignored) parameters the path is matched against an anchored expression built from the pattern instead of being reconstructed",
		assume:  []string{"patterns are well-formed"},
		stubs:   stdStubs,
	},
	{
		id: "C02",
		runs: []runSpec{
			{dir: "mux", entry: "ZZC02",
				quick:    []int{8, 108, 208, 308, 408, 508, 608, 708, 808, 908, 1008, 1108, 1208, 1308, 1408, 1508, 1608, 1708, 1908, 2008, 2108, 2308, 2408, 2508, 2608, 2708, 2808, 2908, 3008, 3108, 3208, 3308, 3408, 3508, 3606, 3709},
				thorough: []int{10, 110, 210, 310, 410, 510, 610, 710, 810, 910, 1010, 1110, 1210, 1310, 1410, 1510, 1610, 1710, 1806, 1910, 2010, 2110, 2208, 2310, 2410, 2510, 2610, 2710, 2810, 2910, 3010, 3110, 3210, 3310, 3410, 3510, 3608, 3711}},
		},
		covers:  []string{"404", "matched", "matched-with-params"},
		bounds:  "request path: every byte string of length <= 8; 36 add-only route tables, three of them also probed with a few concrete paths beyond the length bound (20-digit runs, five separators) (two with a literal that starts with a non-ASCII byte; 8 selections of 3-4 patterns from a 15-pattern pool plus a 6-literal-sibling bundle, each in two registration orders; 6 tables aimed at the first-byte index with a failing indexed literal, deep literal splits, one parameter with several suffixes, endpoint vs continuing parameters); reference = a resolver over the pattern strings that never builds a tree and returns the set of admissible outcomes",
		boundsT: "as quick with request path length <= 10, plus a table with four parameter kinds among >=5 children (length <= 6) and one with the three bundled interceptors at one position (length <= 8)",
		outside: "longer paths; other tables; regexp rules whose alphabet overlaps the first byte of the literal that follows them; paths \"\" and \"*\"",
		assume:  []string{"patterns are well-formed", "method GET only (method handling is C01/C03/C08)"},
		stubs:   stdStubs,
	},
	{
		id: "C03",
		runs: []runSpec{
			{dir: "mux", entry: "ZZC03", quick: []int{14, 24, 114, 124, 214, 224, 314, 324, 414, 424, 514, 524, 614, 624, 714, 724, 814, 824, 914, 924}, thorough: []int{15, 25, 115, 125, 215, 225, 234, 315, 325, 415, 425, 434, 515, 525, 534, 615, 625, 715, 725, 815, 825, 915, 925, 934}},
		},
		covers:  []string{"history", "non-interference-checked"},
		bounds:  "10 scenarios (a route that lost its handlers, stayed as an inner node, is pruned with its last descendant and comes back; a cleaned prefix that is itself a route; one removal pruning two levels below an indexed parent; a non-ASCII literal among siblings crossing the index threshold; a live route that is a proper prefix of a cleaned prefix; an indexed parent with a handler-less branch that is pruned over two removals; six literal siblings + parameter sibling; five top-level routes not starting with '/'; parameters with several methods; interceptor/regexp/named at one position), every history of <= 2 operations from a 6-10 operation alphabet (Handle, Remove(pattern), Remove(pattern, methods), Clean, Prefix.Clean, Resource.Clean) after the scenario's setup; after the last step: Routes() vs model, witness requests of every pattern x 5 methods, and the same symbolic request (path <= 4 bytes, 5 methods) before and after the step",
		boundsT: "as quick with symbolic paths <= 5 bytes; histories of 3 operations (paths <= 4 bytes) on four of the scenarios",
		outside: "longer histories, other pattern pools, paths longer than the bound",
		assume:  []string{"the non-interference clause is asserted for every request that was dispatched to a route the step does not name"},
		stubs:   stdStubs,
	},
	{
		id: "C04",
		runs: []runSpec{
			{dir: "mux", entry: "ZZC04", quick: []int{1, 2, 3, 101, 102, 103, 1001, 1002, 1003, 1101, 1102, 1103, 2001, 2002, 2003, 2102, 3001, 3002, 3003}, thorough: []int{1, 2, 3, 4, 101, 102, 103, 104, 1001, 1002, 1003, 1004, 1101, 1102, 1103, 1104, 2001, 2002, 2003, 2004, 2103, 3001, 3002, 3003, 3004}, mapRev: true},
		},
		covers:  []string{"history", "options-allow", "405-allow"},
		bounds:  "4 operation alphabets of 8-11 operations, the third after a 3-route setup with a split literal node, the fourth (without WithTrace only) with TRACE registered by hand (registrations that split nodes after methods were registered, removal of all methods of a leaf and of an inner node with live descendants / of single / of never-registered methods / of one method named twice, Clean, Prefix.Clean with prefixes ending on a node boundary / inside a segment / on the parent, Any), every history of <= 3 operations, with and without WithTrace, both map iteration orders; after the last step, for every live pattern: Allow of OPTIONS and of 405 (read through the node captured by the builder), Node().Methods()/AllowHeader(), Routes(), for every request reaching the route (parameter values symbolic, <= 2 bytes); OPTIONS * on every state including the brand-new router",
		boundsT: "as quick with histories of <= 4 operations",
		outside: "longer histories, other pattern pools",
		stubs:   stdStubs,
	},
	{
		id: "C05",
		runs: []runSpec{
			{dir: "mux", entry: "ZZC05Req", quick: seq(0, []int{0, 1, 2, 3, 4, 5, 6, 7, 8, 9, 10, 11, 12, 13, 14, 15, 16, 17, 18, 19, 20, 21, 22, 23, 24}, 8), thorough: seq(0, []int{0, 1, 2, 3, 4, 5, 6, 7, 8, 9, 10, 11, 12, 13, 14, 15, 16, 17, 18, 19, 20, 21, 22, 23, 24}, 11)},
			{dir: "mux", entry: "ZZC05Grp", quick: []int{33}, thorough: []int{54}},
			{dir: "mux", entry: "ZZC05Host", quick: []int{6}, thorough: []int{9}},
			{dir: "mux", entry: "ZZC05Ver", quick: []int{6}, thorough: []int{10}},
			{dir: "mux", entry: "ZZC05Pat", quick: []int{6}, thorough: []int{8}},
			{dir: "mux", entry: "ZZC05Rule", quick: []int{33, 152, 252}, thorough: []int{43, 163, 263}},
			{dir: "mux", entry: "ZZC07Wide", quick: []int{2}, thorough: []int{3}},
		},
		covers:  []string{"request", "group-request", "host-match", "version-match", "handle-registered", "handle-rejected", "rule-accepted", "rule-rejected", "rule-served", "after-a-wide-request"},
		bounds:  "Router.ServeHTTP: path = every byte string <= 8 bytes (incl. \"\", \"*\", non-UTF-8), method = every byte string <= 4 bytes, on the 25 route-table histories of C01 (which include Remove/Clean/Prefix.Clean states); Group.ServeHTTP with Hosts, path-version, header-version and And matchers: Host <= 3 ASCII bytes, path <= 3 bytes, 5 methods, 6 Accept headers; Hosts.Match: Host <= 6 ASCII bytes on 9 domains after a Delete; path-version matcher: path <= 6 bytes; patterns: every byte string <= 6 bytes into CheckSyntax, URL, Router.URL (strict and not), Handle on an empty and on a populated router; regexp rules: every string of <= 3 symbols over {a ( ) | ? * \\ b} and of <= 5 symbols over {a ( ) | b} as the rule of /{id:rule} with and without a literal suffix - whatever Handle accepts must then serve every path of <= 2-3 bytes without a fault; a request capturing 30-32 parameters followed by one with a symbolic value",
		boundsT: "paths <= 11, Group host <= 5 / path <= 4, Hosts host <= 9, patterns <= 8 bytes",
		outside: "longer inputs (the math.MaxInt16 segment limit is not reachable); Host bytes >= 0x80 (strings.ToLower is modelled for ASCII only); arbitrary Accept headers (mime.ParseMediaType runs natively on 6 concrete headers); panics raised by user handlers or interceptors",
		assume:  []string{"regexp.Compile on a symbolic expression is an uninterpreted, consistent function of its bytes that never panics"},
		stubs:   append(append([]string{}, stdStubs...), "strings.ToLower: exact for ASCII; regexp.QuoteMeta, strings.TrimSpace: byte-wise models; mime.ParseMediaType on concrete headers: the real function"),
	},
	{
		id: "C08",
		runs: []runSpec{
			{dir: "mux", entry: "ZZC08Head", quick: []int{3}, thorough: []int{3}},
			{dir: "mux", entry: "ZZC08Hist", quick: []int{1, 2, 3, 13}, thorough: []int{1, 2, 3, 4, 14}, mapRev: true},
			{dir: "mux", entry: "ZZC08Reg", quick: []int{7, 107}, thorough: []int{8, 108}},
			{dir: "mux", entry: "ZZC08Rec", quick: []int{2}, thorough: []int{3}},
		},
		covers:  []string{"head-vs-get", "content-length", "history", "registered", "rejected", "head-of-a-panicking-handler"},
		bounds:  "HEAD vs GET: every handler behaviour of <= 3 Write calls whose sizes are symbolic 64-bit ints in [0,300000] (decided by z3, not enumerated), with/without an explicit WriteHeader of a symbolic status in [100,599] (1xx other than 101 modelled as net/http's informational responses, which do not end the header phase), 0-2 headers set before the response starts, and (for >= 2 writes without explicit WriteHeader) Content-Length deleted or overwritten by the handler between writes, parameter value <= 2 arbitrary bytes; histories: every sequence of <= 3 operations from 12 (Handle of GET/POST/DELETE, Remove with lists containing GET, HEAD, OPTIONS, \"\", POST) followed by 7 methods on 2 paths; registration: every method string of <= 7 bytes, with and without WithTrace; HEAD of a route whose GET handler panics before writing, on routers with WithStatusRecovery / WithRecovery writing an error page",
		boundsT: "histories of <= 4 operations, method strings <= 8 bytes",
		outside: "header mutations after the response has started (net/http ignores them on GET as well); more than 3 writes; sizes above 300000; Content-Length after an explicit WriteHeader (documented as unsupported)",
		assume:  []string{"the underlying ResponseWriter sends the header on the first Write or when the handler returns (net/http semantics), modelled by the harness writer"},
		stubs:   append(append([]string{}, stdStubs...), "strconv.Itoa on a symbolic int: digit-wise model, exact for 0 <= v < 10^6 (the bound is checked with the solver)"),
	},
	{
		id: "C17",
		runs: []runSpec{
			{dir: "mux", entry: "ZZC17", quick: []int{2002, 12002, 22002, 32002, 42002, 1002002, 112001, 122001, 222001, 312001, 422001, 442001, 3000, 13000}, thorough: []int{2002, 12002, 22002, 32002, 42002, 1002002, 1012002, 1003000, 13002, 23002, 112002, 122002, 222002, 312002, 422002, 442002, 102002, 202002, 3000, 13000, 4000, 14000, 24000}},
		},
		covers:  []string{"accepted", "rejected"},
		bounds:  "5 route tables (one with a split literal node whose inner node is a candidate pattern), optionally after an earlier Handle that was rejected for its method (it may leave handler-less nodes behind); one Handle call with a pattern from a 17-pattern pool (live, name variants, '-' variants, rule variants, new, 6 malformed) and a method list of <= 2 entries from {GET, POST, HEAD, OPTIONS, unknown} (plus TRACE on a router with WithTrace, where it is reserved: one table in quick, two in thorough), single-entry lists with every method string of <= 3 bytes; compared before/after a rejected call: Routes(), the Allow header of every live pattern (OPTIONS and 405), and the outcome of the same symbolic request (path <= 2 bytes x 4 methods incl. HEAD); accept/reject clauses against an independent shape comparison",
		boundsT: "as quick plus method lists of <= 3 entries with a 2-byte probe on two tables and lists of <= 4 entries with a fixed probe on three tables",
		outside: "longer method lists; other pools; effects of a rejected call on strict URL building",
		stubs:   stdStubs,
	},
	{
		id: "C09",
		runs: []runSpec{
			{dir: "mux", entry: "ZZC09", quick: []int{1, 2, 3, 103, 1002, 1003}, thorough: []int{1, 2, 3, 4, 104, 1002, 1003, 1004}, mapRev: true},
			{dir: "mux", entry: "ZZC09Grp", quick: []int{2, 3, 4, 5}, thorough: []int{2, 3, 4, 5, 6}},
		},
		covers:  []string{"program", "use-and-routes", "group-program", "group-router-A", "group-router-B"},
		bounds:  "every program of <= 3 calls from 10 operations (two nested prefixes built from one caller-owned middleware slice with spare capacity, Use with 1 or 2 middlewares, Handle with 2 route middlewares, Post without, Prefix with 2 + route middleware, nested Prefix.Prefix, Resource (GET with and POST without route middleware), Prefix.Resource, Any), with and without WithTrace and in both map iteration orders; every group program of <= 5 calls from 6 operations (Group.Use, Group.New, Group.Add of a router with its own Use and route, Handle, router Use, Prefix(\"\").Post); then every handler kind of every route (methods, HEAD, OPTIONS, 405, 404, OPTIONS *, TRACE, group not-found) is invoked and its middleware chain, factory arguments and the factory invocation count are compared with the documented order computed from the program text",
		boundsT: "programs of <= 4 calls, group programs of <= 6 calls",
		outside: "longer programs; removal of routes between Use calls other than the one removal of the pre-populated table; this property has no data dimension: the verdict is an exhaustive bounded exploration of the real SSA by forking on operation selectors, the solver only confirms path feasibility",
		stubs:   stdStubs,
	},
	{
		id: "C10",
		runs: []runSpec{
			{dir: "mux", entry: "ZZC10", quick: []int{3, 103, 203}, thorough: []int{4, 104, 204}},
			{dir: "mux", entry: "ZZC10RT", quick: []int{8}, thorough: []int{10}},
			{dir: "mux", entry: "ZZC03", quick: []int{514}, thorough: []int{514, 524}}, // strict URL of every live / removed pattern before and after each step of a history (registrations that split nodes)
		},
		covers:  []string{"non-empty-params", "strict-must-fail", "strict-must-succeed", "round-trip", "round-trip-with-params"},
		bounds:  "20 patterns (9 live routes incl. an ignored parameter whose name starts with '-' covering regexp in the middle and at the end, named, digit/word interceptors, ignored name, regexp + literal suffix; an inner tree node, a node whose methods were removed by name, an unregistered pattern, a prefix of a live route; 6 malformed forms) x every params map (each key present or absent with every value of <= 3 bytes, optional extra key, empty map) x strict/non-strict x 3 URL-domain settings; round trip: every request path of <= 8 bytes dispatched by a 9-route router, rebuilt with URL and strict Router.URL from the captured parameters",
		boundsT: "values <= 4 bytes, round-trip paths <= 10 bytes",
		outside: "other patterns; regexp rules with alternations whose leftmost-first match is shorter than a full match; Prefix.URL / Resource.URL (C19)",
		stubs:   stdStubs,
	},
	{
		id: "C11",
		runs: []runSpec{
			{dir: "mux", entry: "ZZC11", quick: []int{10001, 10101, 10203, 11001, 11101, 11203, 11303, 12001, 12101, 12203, 12303, 13001, 13101, 13303, 14001, 14101, 14303, 15001, 16001, 17001, 18001, 12403, 12501, 12601},
				thorough: []int{10001, 10101, 10203, 10303, 11001, 11101, 11203, 11303, 12001, 12101, 12203, 12303, 13001, 13101, 13203, 13303, 14001, 14101, 14203, 14303, 15001, 16001, 17001, 18001, 12403, 13403, 12501, 12601, 12204, 12304}},
		},
		covers:  []string{"deny", "404-405", "preflight-unserved-method", "preflight-disallowed-header"},
		bounds:  "WithCORS with 5 origin lists x 4 allow-header lists (and a mixed-case two-name list on two origin lists, and a list with '*' next to another name), always after a registration that was rejected for a duplicate method behind an unserved one, plus WithAllowedCORS, WithDenyCORS and two option sequences in which a later CORS option overrides an earlier one, x 3 (exposed, credentials, max-age) settings with max-age a symbolic int in [1,99999]; requests: GET/HEAD/POST/OPTIONS/empty method on a live route, GET and OPTIONS on a route registered on \"/\", OPTIONS *, an unknown path; Origin absent, every string of <= 2 bytes (so it can equal a configured origin) or, for the two-origin list, its 73-byte second origin verbatim; OPTIONS with an empty request path (absolute-form target, C11 only); Access-Control-Request-Method absent / GET / PUT / every string of <= 3 bytes; Access-Control-Request-Headers absent, 4 fixed spellings (lower case, lists, mixed case with spaces) and every string of <= 3 visible-ASCII/HTAB bytes (<= 1 for the configurations without an allow-list), and for the allow-list {X-Id, X-A} six concrete header lists whose names differ from an allowed name only by a non-ASCII letter with an ASCII case mapping (U+0130, U+0131) or by a punctuation character that differs in bit 0x20 (^ and ~); a response is read again after a later request from the other listed origin; reference: own list parser (split on ',', trim OWS, ASCII case-insensitive)",
		boundsT: "every origin-list x allow-list combination with free Access-Control-Request-Headers <= 3 bytes, <= 4 bytes on the single-origin configuration",
		outside: "header values with bytes outside visible ASCII / HTAB; longer free header values; origins longer than 2 bytes",
		stubs:   append(append([]string{}, stdStubs...), "strings.TrimSpace: byte-wise model exact for ASCII; strconv.Itoa on the symbolic max-age: digit-wise model"),
	},
	{
		id: "C12",
		runs: []runSpec{
			{dir: "mux", entry: "ZZC11", quick: []int{21001, 21101, 21203, 21303, 22001, 22101, 22203, 22303, 23001, 23101, 23303, 24001, 24101, 24303, 25001, 28001, 22403, 32101, 33101, 22601},
				thorough: []int{21001, 21101, 21203, 21303, 22001, 22101, 22203, 22303, 23001, 23101, 23203, 23303, 24001, 24101, 24203, 24303, 25001, 28001, 22403, 23403, 32101, 33101, 32203, 22601, 22204, 22304}},
		},
		covers:  []string{"grant", "preflight-grant", "not-a-preflight"},
		bounds:  "as C11 restricted to the 4 non-empty origin lists, plus two configurations explored after a request whose handler added values of its own to every CORS response header (they must not show in later responses); asserted: Allow-Origin/Credentials/Expose-Headers exactly as configured for allowed origins, Allow-Methods = the route's Allow set, Allow-Headers and Max-Age (symbolic int, compared through strconv.Itoa) on accepted preflights only, Vary naming Origin / Access-Control-Request-Method / Access-Control-Request-Headers",
		boundsT: "every origin-list x allow-list combination with free Access-Control-Request-Headers <= 3 bytes, <= 4 bytes on the single-origin configuration",
		outside: "as C11; header lists with empty elements are not required to be granted",
		stubs:   append(append([]string{}, stdStubs...), "strings.TrimSpace, strings.EqualFold (from its own SSA, ASCII path); strconv.Itoa digit-wise model"),
	},
	{
		id: "C13",
		runs: []runSpec{
			{dir: "mux", entry: "ZZC13", quick: []int{44, 134, 234, 334}, thorough: []int{45, 145, 245, 345}},
		},
		covers:  []string{"router-accepts", "group-served", "group-404"},
		bounds:  "4 groups of 3 routers whose matchers are built from path-version, Hosts (literal and parameterised domains), header-version, And, Or (nested) and nil; optional Remove of each router, optionally followed by adding the same router object again with a nil matcher; a duplicate-name New; Router(name), Routers(), Routes(); request: Host = every ASCII string of <= 3-4 bytes, path = every string of <= 4 bytes, Accept from a table of 6 headers; reference: independent matchers evaluated on the original request (first accepting router, rewritten path, matcher parameters), then that router alone on the rewritten request",
		boundsT: "Host <= 4, path <= 5 bytes",
		outside: "other matcher combinations; arbitrary Accept headers; Host bytes >= 0x80; histories of Use after New",
		stubs:   append(append([]string{}, stdStubs...), "strings.ToLower (ASCII), mime.ParseMediaType on concrete headers: the real function"),
	},
	{
		id: "C14",
		runs: []runSpec{
			{dir: "mux", entry: "ZZC14", quick: []int{106, 205, 1105, 1205, 2204, 3205, 4105}, thorough: []int{306, 1306, 2305, 3306, 4205}},
		},
		covers:  []string{"host-history", "host-accepted", "host-rejected", "host-params"},
		bounds:  "4 operation alphabets of 4-9 operations (Add/Delete of literal and parameterised domains in mixed case, Delete of an unknown domain, a 6-literal bundle plus a wildcard domain, RegisterInterceptor + interceptor domain, an IPv6 literal, two domains sharing a first byte under an indexed root that are deleted one after the other), every history of <= 2 operations; Host = every ASCII string of <= 5 bytes (<= 6 after single operations, <= 4 for the third alphabet) (case, ':port', brackets, invalid ports all included); reference: own normaliser + the C02 reference resolver over the lower-cased live domain set, parameters compared",
		boundsT: "histories of <= 3 operations, Host <= 6 bytes",
		outside: "Host bytes >= 0x80 (Unicode case folding); longer hosts; the empty host and \"*\"",
		stubs:   append(append([]string{}, stdStubs...), "strings.ToLower: exact for ASCII"),
	},
	{
		id: "C15",
		runs: []runSpec{
			{dir: "mux", entry: "ZZC15Path", quick: []int{36}, thorough: []int{38}},
			{dir: "mux", entry: "ZZC15Hdr", quick: []int{3}, thorough: []int{3}},
		},
		covers:  []string{"version-accepted", "version-rejected", "header-accepted", "header-rejected"},
		bounds:  "path version: 1-2 version strings of 1-3 arbitrary bytes each (leading/trailing '/', v1/v11 overlaps, '/' inside), with and without a parameter name, path = every string of <= 6 bytes, a pre-existing context parameter; header version: with/without parameter name and custom key, Accept = 14 table entries (absent, garbage, quoted value, other parameters, duplicate parameter, upper-case parameter names, five malformed media types in front of a listed version) or 'a/b; <key>=' followed by every token string of <= 3 bytes over [a-z0-9._-]",
		boundsT: "paths <= 8 bytes",
		outside: "arbitrary Accept bytes (mime.ParseMediaType is the real function on concrete headers and an exact model for a symbolic token-valued last parameter only)",
		stubs:   append(append([]string{}, stdStubs...), "mime.ParseMediaType: real function on concrete input; for '<concrete>; key=<symbolic token bytes>' the parameter value is the symbolic tail (validated natively on every run)"),
	},
	{
		id: "C16",
		runs: []runSpec{
			{dir: "mux", entry: "ZZC08Rec", quick: []int{2}, thorough: []int{3}},
			{dir: "mux", entry: "ZZC16", quick: []int{11, 111, 211, 311, 411, 20, 120, 220, 320}, thorough: []int{12, 112, 212, 312, 412, 21, 121, 221, 321, 421, 30, 230}},
		},
		covers:  []string{"normal-request", "panic-contained", "panic-passes-through"},
		bounds:  "Router and Group (router created by Group.New with an extra per-router option) with WithRecovery, without it, and Router with WithStatusRecovery; one request with a symbolic parameter value of <= 1 byte and every sequence of 2 requests with an empty one, each request of 7 kinds (route handler behind Use and route middlewares, HEAD, OPTIONS, 405, 404, TRACE, group not-found), panicking or not, with a symbolic panic value (any int64, any string of <= 2 bytes) or http.ErrAbortHandler",
		boundsT: "1 request with values <= 2 bytes, 2 requests with values <= 1 byte, 3 requests with empty values",
		outside: "panics raised by the RecoverFunc itself or by matchers; routers added to a group with Group.Add; the other bundled recovery options (they differ only in logging, which is stubbed)",
		stubs:   append(append([]string{}, stdStubs...), "net/http.Error: its documented effect on the writer; logging and stack dumps: empty bodies"),
	},
	{
		id: "C18",
		runs: []runSpec{
			{dir: "mux", entry: "ZZC18", quick: append(seq(50, []int{0, 1, 2, 3, 4, 5, 6, 7, 8, 9, 10, 11, 12, 13, 14, 15, 16, 17, 18, 19, 20, 21, 22, 23, 24}, 6), seq(0, []int{0, 1, 2, 3, 4, 5, 6, 7, 8, 9, 10, 11, 12, 13, 14, 15, 16, 17, 18, 19, 20, 21, 22, 23, 24}, 6)...), thorough: append(seq(50, []int{0, 1, 2, 3, 4, 5, 6, 7, 8, 9, 10, 11, 12, 13, 14, 15, 16, 17, 18, 19, 20, 21, 22, 23, 24}, 9), seq(0, []int{0, 1, 2, 3, 4, 5, 6, 7, 8, 9, 10, 11, 12, 13, 14, 15, 16, 17, 18, 19, 20, 21, 22, 23, 24}, 9)...)},
			{dir: "trace", entry: "ZZC18Helper", quick: []int{0, 1, 2}, thorough: []int{0, 1, 2}},
		},
		covers:  []string{"trace-configured", "trace-not-configured", "dump-ok", "dump-error"},
		bounds:  "TRACE request with every path of <= 6 bytes on the 25 table histories of C01 between two Use calls, with WithTrace (configured handler, exactly the Use middlewares with arguments TRACE/\"\"/router, no parameters, manual registration refused, TRACE in every Allow set incl. OPTIONS *) and without (404/405 per the documented resolution, TRACE registrable and then served); helper: httputil.DumpRequest nondeterministic (arbitrary error, or arbitrary dump of <= 3 bytes incl. HTML metacharacters), status 200, Content-Type read from the header snapshot taken at WriteHeader, body = html.EscapeString(dump), error passthrough, without body and with a body of undeclared and of declared length",
		boundsT: "paths <= 9 bytes",
		outside: "the content of real request dumps (httputil.DumpRequest is stubbed; natively it is the real function)",
		stubs:   append(append([]string{}, stdStubs...), "net/http/httputil.DumpRequest: arbitrary error or arbitrary <= 3 bytes, deterministic per request; html.EscapeString: byte-wise model of the five replacements"),
	},
	{
		id: "C19",
		runs: []runSpec{
			{dir: "mux", entry: "ZZC19", quick: []int{13, 23, 112, 122}, thorough: []int{13, 24, 33, 113, 124}},
			{dir: "mux", entry: "ZZC19Verbs", quick: []int{2}, thorough: []int{3}},
		},
		covers:  []string{"program", "facade-route-reached", "verbs"},
		bounds:  "every program of <= 2 facade calls from 14 (incl. a cleaned prefix that is itself a parameter route, a Resource object that outlives its route, a Prefix object created before a Use), on an empty table and on one with five literal siblings next to a parameter route (Prefix with middlewares, empty Prefix, a Prefix ending inside a {..} token, nested Prefix.Prefix + Any, Resource Get/Delete, Prefix.Resource Put, Prefix.Resource.Remove, Prefix.Clean, a nested Prefix.Clean whose prefix reaches into a parameter segment, Resource.Clean, nested Prefix.Remove with a method list) run through the facades on one router and desugared into plain Router calls on a second one; compared: Routes(), the table model, the same symbolic request (path <= 3 bytes x 6 methods: handler, pattern, parameters, middleware chain, status, Allow), Prefix.URL / Resource.URL / nested Prefix.URL vs Router.URL in both modes with a symbolic value; every verb shorthand (Get/Post/Delete/Put/Patch/Any/Handle) of Router, Prefix and Resource against the explicit Handle call on 7 patterns x 8 methods with a symbolic parameter value",
		boundsT: "programs of <= 2 calls with probe paths <= 4 bytes, programs of 3 calls on the empty table with probe paths <= 3 bytes",
		outside: "longer programs; other prefixes",
		stubs:   stdStubs,
	},
	{
		id: "C20",
		runs: []runSpec{
			{dir: "types", entry: "ZZC20", quick: []int{12, 22, 32}, thorough: []int{13, 23, 33}},
			{dir: "types", entry: "ZZC20Conv", quick: []int{4}, thorough: []int{6}},
			{dir: "types", entry: "ZZC20Float", quick: []int{0}, thorough: []int{0}},
		},
		covers:  []string{"sequence", "pool-reuse", "absent-key", "present-key", "conversion", "int-ok", "bool-ok", "float"},
		bounds:  "every sequence of <= 3 operations from {Set, Delete, Reset, Destroy+NewContext, Params().Set, Destroy + a late write by the old holder + NewContext} with keys from {a, b, any 1-byte string} and values of <= 2 arbitrary bytes, then Count/Get/Exists/String/MustString/Range and the typed accessors for an arbitrary probe key against a shadow association list; Int/Uint/Bool and their Must* variants against strconv executed symbolically from its own SSA on every string of <= 4 bytes plus 27 edge-case seeds (overflow boundaries, signs, underscores, hex, NaN/Inf); Float/MustFloat against strconv.ParseFloat on the 27 seeds",
		boundsT: "sequences of <= 3 operations with values <= 3 bytes, conversion strings <= 6 bytes",
		outside: "Float on arbitrary strings (strconv.ParseFloat is only run natively on concrete seeds); longer values",
		assume:  []string{"sync.Pool returns the most recently released context (the case the 'starts empty' clause is about)"},
		stubs:   append(append([]string{}, stdStubs...), "strconv.ParseInt/ParseUint/ParseBool: executed from their own SSA; strconv.ParseFloat: the real function on concrete strings; strconv.ErrSyntax/ErrRange: opaque distinct error values"),
	},
	{
		id: "C06",
		runs: []runSpec{
			{dir: "mux", entry: "ZZC06", quick: []int{0, 1, 2, 3, 4, 5, 10, 11, 12, 13, 14, 15, 20, 21, 22, 23, 24, 25, 30, 31, 32, 33, 34, 35, 40, 41, 42, 43, 44, 45, 50, 51, 52, 53, 54, 55, 1000, 1002, 1020, 1022, 1030, 1032, 16709, 17609, 13609, 16309, 12709, 18909, 60, 62, 65, 70, 72, 75}, thorough: []int{0, 1, 2, 3, 4, 5, 10, 11, 12, 13, 14, 15, 20, 21, 22, 23, 24, 25, 30, 31, 32, 33, 34, 35, 40, 41, 42, 43, 44, 45, 50, 51, 52, 53, 54, 55, 1000, 1002, 1020, 1022, 1030, 1032, 100, 101, 102, 110, 111, 112, 130, 131, 132, 16709, 17609, 13609, 16309, 12709, 18909, 60, 62, 65, 70, 72, 75, 16700, 18900}},
			{dir: "mux", entry: "ZZC06Amb", quick: []int{0, 1}, thorough: []int{0, 1}},
			{dir: "mux", entry: "ZZC06Panic", quick: []int{0, 1}, thorough: []int{0, 1}},
			{dir: "mux", entry: "ZZC06RR", quick: []int{1, 12, 23, 33, 34, 35, 37, 44, 55, 56, 57, 134, 103, 256, 201}, thorough: []int{1, 12, 23, 33, 34, 35, 37, 44, 55, 56, 57, 77, 134, 103, 137, 155, 256, 201, 234, 207}},
		},
		covers:  []string{"interleaving", "two-readers", "ambiguous-pair", "panic-under-the-lock"},
		race:    true,
		bounds:  "router created with WithLock(true) holding 3 routes; 2 logical threads: one writer (Handle that splits an untouched route's node, Handle of a method on the toggled route, Remove, Remove+Handle toggle, Clean, a Handle rejected as ambiguous) x one reader (ServeHTTP of the toggled route with GET and POST, of an untouched literal route, of an untouched parameter route, Routes(), strict URL), all 36 pairs plus the writers Remove(GET) and Remove+Handle(POST) with three readers; 6 two-request readers; 6 pairs of writers without a reader whose final table must be the result of some serial order of their operations (incl. two registrations through different Prefix objects that share a caller-owned middleware slice); 15 pairs of readers running at the same time (ServeHTTP, Routes(), strict URL of two different routes incl. one that runs an interceptor, non-strict URL of patterns never seen before), alone and next to a splitting registration or the toggle; deadlocks (sync.RWMutex with writer preference: a waiting Lock blocks new readers) are reported; the schedule is a symbolic choice at every lock operation and every schedule at that granularity is explored; a happens-before monitor (vector clocks over lock/unlock, pool put/get, thread start/join) checks every heap access of the interpreted code; each response must be one a sequential router could produce",
		boundsT: "as quick plus 9 scenarios with 3 threads (two writers and a reader)",
		outside: "more threads or operations per thread; preemption inside a critical section is covered by the race monitor, not by the functional clause; Router.Use concurrent with anything; user code that reads Node().Methods()/AllowHeader() of a route while that route's methods are being changed; weak-memory effects beyond the Go memory model's definition of a data race",
		assume:  []string{"sync.RWMutex and sync.Pool behave as the Go memory model documents (engine models)"},
		stubs:   append(append([]string{}, stdStubs...), "sync.RWMutex: engine model (blocking, happens-before edges unlock->lock); logical threads scheduled at synchronisation operations only"),
	},
	{
		id: "C07",
		runs: []runSpec{
			{dir: "mux", entry: "ZZC07Seq", quick: []int{1, 2}, thorough: []int{1, 2, 3}},
			{dir: "mux", entry: "ZZC07Pool", quick: []int{5}, thorough: []int{7}},
			{dir: "mux", entry: "ZZC07Nested", quick: []int{2}, thorough: []int{3}},
			{dir: "mux", entry: "ZZC07Wide", quick: []int{2}, thorough: []int{3}},
			{dir: "mux", entry: "ZZC08Rec", quick: []int{2}, thorough: []int{3}},
			{dir: "mux", entry: "ZZC07Grp", quick: []int{2}, thorough: []int{3}},
			{dir: "mux", entry: "ZZC09Grp", quick: []int{4, 5}, thorough: []int{4, 5, 6}}, // sibling routers of a group: what one is given never shows in the other
			{dir: "mux", entry: "ZZC07Par", quick: []int{0, 1, 2, 3, 4, 10, 12}, thorough: []int{0, 1, 2, 3, 4, 10, 12}},
		},
		covers:  []string{"foreign-activity", "pooled-request-served", "nested-request", "after-a-wide-request", "par-two-routers", "par-router-and-hosts", "par-build-and-serve", "par-shared-options", "par-requests", "par-group-requests", "group-siblings"},
		race:    true,
		bounds:  "sequential: a brand-new router (with/without WithTrace) is observed (OPTIONS * Allow, a 404, Routes(), Allow after one registration) before and after (and against the documented answers after) every sequence of <= 2 operations from 10 on other routers, a Hosts matcher and a Group; pooled contexts: two consecutive requests with symbolic paths <= 5 bytes on the backtracking table, optionally after a Group served (its own release path), and a handler that serves a nested request while its own is in flight; a request that captures 30-32 parameters (around the pool's release threshold) followed by an ordinary one; a HEAD request after a HEAD whose handler panicked and was recovered (objects pooled per request must not carry anything over); the engine also reports a pooled object that is released twice; concurrent (logical threads + happens-before monitor over every heap access): two routers registering/removing in parallel, a router and a Hosts matcher, one router being built and cleaned while another serves, a router built from the same Option values as one that is serving, two parallel requests with symbolic parameter values on one quiescent router with and without WithLock",
		boundsT: "foreign sequences of <= 3 operations, pooled paths <= 8 bytes",
		outside: "more than two concurrent requests; Groups used concurrently; weak-memory effects beyond the Go memory model's race definition",
		assume:  []string{"sync.Pool hands a released context to the next request (single-goroutine runtime behaviour between GCs)"},
		stubs:   append(append([]string{}, stdStubs...), "logical threads scheduled at synchronisation operations; happens-before monitor at field/element granularity and whole-map granularity for maps"),
	},
}
