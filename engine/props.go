package main

func seq(base int, tables []int, n int) []int {
	var out []int
	for _, t := range tables {
		out = append(out, t*100+n+base)
	}
	return out
}

var stdStubs = []string{
	"strings.Index/IndexByte/LastIndexByte/Count: engine intrinsics that fork on the match position",
	"strings.Builder, strings.Join: engine intrinsics",
	"regexp.Compile on a concrete expression: the real regexp package; matching symbolic text: a backtracking VM over the real regexp/syntax program of that expression (leftmost-first)",
	"sync.Pool: Get returns the most recently Put object, else New()",
	"fmt.Errorf/Sprintf: opaque values carrying the format string",
	"net/textproto.CanonicalMIMEHeaderKey on concrete header names: the real function",
}

var propSpecs = []propSpec{
	{
		id: "C01",
		runs: []runSpec{
			{dir: "mux", entry: "ZZC01", quick: seq(0, []int{0, 1, 2, 3, 4, 5, 6, 7}, 8), thorough: seq(0, []int{0, 1, 2, 3, 4, 5, 6, 7}, 10)},
		},
		covers:  []string{"404", "405", "options", "options-star", "served", "served-with-params"},
		bounds:  "request path: every byte string of length <= 8 (all 256 byte values); method: each of GET HEAD POST OPTIONS DELETE PUT TRACE \"\" BOGUS plus every string of <= 3 free bytes; 8 route-table histories (Handle/Remove/Clean/Prefix.Clean, <= 8 operations) over literal, named, regexp, interceptor, ignored-name, endpoint and >=5-sibling shapes; interceptors digit/word/any",
		boundsT: "as quick, request path length <= 10",
		outside: "longer paths; route tables other than the 8 listed histories; regexp rules other than \\d+ [a-z]+ [a-c]+ \\w*; user-defined interceptor functions; patterns with braces in literal text; reconstruction of the text consumed by '-' (ignored) parameters",
		assume:  []string{"patterns are well-formed"},
		stubs:   stdStubs,
	},
}
