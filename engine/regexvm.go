package main

import (
	"regexp"
	"regexp/syntax"
	"sync"
	"unicode"
)

var progCache sync.Map // *regexp.Regexp -> *syntax.Prog

func progOf(re *regexp.Regexp) *syntax.Prog {
	if p, ok := progCache.Load(re); ok {
		return p.(*syntax.Prog)
	}
	rx, err := syntax.Parse(re.String(), syntax.Perl)
	if err != nil {
		panic(err)
	}
	p, err := syntax.Compile(rx.Simplify())
	if err != nil {
		panic(err)
	}
	progCache.Store(re, p)
	return p
}

// runeCond builds the condition "rune r matches instruction i". r is a 32-bit Int (maybe symbolic).
func runeCond(inst *syntax.Inst, r Int) *Term {
	if r.T == nil {
		if inst.MatchRune(rune(int32(r.V))) {
			return tTrue
		}
		return tFalse
	}
	rt := r.T // width 32, zero-extended ASCII byte
	inRange := func(lo, hi rune) *Term {
		if lo == hi {
			return tEq(rt, bvConst(uint64(lo), 32))
		}
		return tAnd(tBin("bvuge", 0, rt, bvConst(uint64(lo), 32)), tBin("bvule", 0, rt, bvConst(uint64(hi), 32)))
	}
	switch inst.Op {
	case syntax.InstRuneAny:
		return tTrue
	case syntax.InstRuneAnyNotNL:
		return tNot(tEq(rt, bvConst('\n', 32)))
	}
	rs := inst.Rune
	fold := syntax.Flags(inst.Arg)&syntax.FoldCase != 0
	var alts []*Term
	if len(rs) == 1 {
		alts = append(alts, inRange(rs[0], rs[0]))
		if fold {
			for f := unicode.SimpleFold(rs[0]); f != rs[0]; f = unicode.SimpleFold(f) {
				alts = append(alts, inRange(f, f))
			}
		}
		return tOr(alts...)
	}
	for i := 0; i+1 < len(rs); i += 2 {
		alts = append(alts, inRange(rs[i], rs[i+1]))
	}
	return tOr(alts...)
}

type reRun struct {
	m       *Machine
	prog    *syntax.Prog
	s       Str
	visited map[[2]int]bool
	cap     []int
}

func (r *reRun) try(pc, pos int) bool {
	for {
		k := [2]int{pc, pos}
		if r.visited[k] {
			return false
		}
		r.visited[k] = true
		inst := &r.prog.Inst[pc]
		switch inst.Op {
		case syntax.InstFail:
			return false
		case syntax.InstAlt, syntax.InstAltMatch:
			if r.try(int(inst.Out), pos) {
				return true
			}
			pc = int(inst.Arg)
		case syntax.InstNop:
			pc = int(inst.Out)
		case syntax.InstCapture:
			if int(inst.Arg) < len(r.cap) {
				old := r.cap[inst.Arg]
				r.cap[inst.Arg] = pos
				if r.try(int(inst.Out), pos) {
					return true
				}
				r.cap[inst.Arg] = old
				return false
			}
			pc = int(inst.Out)
		case syntax.InstEmptyWidth:
			op := syntax.EmptyOp(inst.Arg)
			ok := true
			if op&syntax.EmptyBeginText != 0 && pos != 0 {
				ok = false
			}
			if op&syntax.EmptyEndText != 0 && pos != len(r.s.S) {
				ok = false
			}
			if op&(syntax.EmptyBeginLine) != 0 && pos != 0 {
				if !r.m.branch(mkBool(tEq(r.s.byteTerm(pos-1), bvConst('\n', 8)))) {
					ok = false
				}
			}
			if op&(syntax.EmptyEndLine) != 0 && pos != len(r.s.S) {
				if !r.m.branch(mkBool(tEq(r.s.byteTerm(pos), bvConst('\n', 8)))) {
					ok = false
				}
			}
			if op&(syntax.EmptyWordBoundary|syntax.EmptyNoWordBoundary) != 0 {
				isWord := func(i int) bool {
					if i < 0 || i >= len(r.s.S) {
						return false
					}
					b := r.s.at(i)
					if b.T == nil {
						c := byte(b.V)
						return c == '_' || (c >= '0' && c <= '9') || (c >= 'a' && c <= 'z') || (c >= 'A' && c <= 'Z')
					}
					in := func(lo, hi byte) *Term {
						return tAnd(tBin("bvuge", 0, b.T, bvConst(uint64(lo), 8)), tBin("bvule", 0, b.T, bvConst(uint64(hi), 8)))
					}
					return r.m.branch(mkBool(tOr(tEq(b.T, bvConst('_', 8)), in('0', '9'), in('a', 'z'), in('A', 'Z'))))
				}
				boundary := isWord(pos-1) != isWord(pos)
				if op&syntax.EmptyWordBoundary != 0 && !boundary {
					ok = false
				}
				if op&syntax.EmptyNoWordBoundary != 0 && boundary {
					ok = false
				}
			}
			if !ok {
				return false
			}
			pc = int(inst.Out)
		case syntax.InstMatch:
			r.cap[1] = pos
			return true
		case syntax.InstRune, syntax.InstRune1, syntax.InstRuneAny, syntax.InstRuneAnyNotNL:
			if pos >= len(r.s.S) {
				return false
			}
			if lead := r.s.at(pos); lead.T != nil {
				// fast path: a class with ASCII members only needs no UTF-8 decoding —
				// every non-ASCII lead byte fails it whatever the rune is.
				if c, ok := asciiClassCond(inst, lead.T); ok {
					if !r.m.branch(mkBool(c)) {
						return false
					}
					pc = int(inst.Out)
					pos++
					continue
				}
			}
			rn, w := r.m.decodeRune(r.s, pos)
			if !r.m.branch(mkBool(runeCond(inst, rn))) {
				return false
			}
			pc = int(inst.Out)
			pos += w
		default:
			unsupported("regexp inst %v", inst.Op)
		}
	}
}

// reSearch: leftmost-first unanchored search (the semantics of FindStringSubmatchIndex).
func (m *Machine) reSearch(re *regexp.Regexp, s Str) []int {
	prog := progOf(re)
	ncap := 2 * (re.NumSubexp() + 1)
	for start := 0; start <= len(s.S); {
		r := &reRun{m: m, prog: prog, s: s, visited: map[[2]int]bool{}, cap: make([]int, ncap)}
		for i := range r.cap {
			r.cap[i] = -1
		}
		r.cap[0] = start
		if r.try(prog.Start, start) {
			return r.cap
		}
		if start >= len(s.S) {
			break
		}
		// The search resumes at the next rune, not at the next byte. For an expression that can only
		// consume ASCII runes the two are equivalent (a match cannot begin inside or at a non-ASCII
		// rune, and an expression that matches the empty string has already matched at the first
		// start), so the forking UTF-8 decoding is only needed otherwise.
		if progASCIIOnly(prog) {
			start++
		} else if b := s.at(start); b.T != nil && m.branch(mkBool(tBin("bvult", 0, b.T, bvConst(0x80, 8)))) {
			start++
		} else {
			_, w := m.decodeRune(s, start)
			start += w
		}
	}
	return nil
}

// asciiClassCond: if every rune the instruction accepts is < 0x80, the condition
// "byte b is accepted" as a constraint over the 8-bit term b.
func asciiClassCond(inst *syntax.Inst, b *Term) (*Term, bool) {
	if inst.Op != syntax.InstRune && inst.Op != syntax.InstRune1 {
		return nil, false
	}
	rs := inst.Rune
	var alts []*Term
	rng := func(lo, hi rune) {
		if lo == hi {
			alts = append(alts, tEq(b, bvConst(uint64(lo), 8)))
		} else {
			alts = append(alts, tAnd(tBin("bvuge", 0, b, bvConst(uint64(lo), 8)), tBin("bvule", 0, b, bvConst(uint64(hi), 8))))
		}
	}
	if len(rs) == 1 {
		if rs[0] > 0x7f {
			return nil, false
		}
		rng(rs[0], rs[0])
		if syntax.Flags(inst.Arg)&syntax.FoldCase != 0 {
			for f := unicode.SimpleFold(rs[0]); f != rs[0]; f = unicode.SimpleFold(f) {
				if f > 0x7f {
					return nil, false
				}
				rng(f, f)
			}
		}
		return tOr(alts...), true
	}
	for i := 0; i+1 < len(rs); i += 2 {
		if rs[i+1] > 0x7f {
			return nil, false
		}
		rng(rs[i], rs[i+1])
	}
	return tOr(alts...), true
}

var asciiOnlyCache sync.Map // *syntax.Prog -> bool

// progASCIIOnly: every rune-consuming instruction accepts ASCII runes only.
func progASCIIOnly(p *syntax.Prog) bool {
	if v, ok := asciiOnlyCache.Load(p); ok {
		return v.(bool)
	}
	res := true
	for i := range p.Inst {
		in := &p.Inst[i]
		switch in.Op {
		case syntax.InstRuneAny, syntax.InstRuneAnyNotNL:
			res = false
		case syntax.InstRune, syntax.InstRune1:
			if _, ok := asciiClassCond(in, bvVar("zz_ascii_probe", 8)); !ok {
				res = false
			}
		case syntax.InstEmptyWidth:
			if syntax.EmptyOp(in.Arg)&(syntax.EmptyWordBoundary|syntax.EmptyNoWordBoundary) != 0 {
				res = false // \b can hold inside a rune boundary only by accident of bytes: keep exact stepping
			}
		}
	}
	asciiOnlyCache.Store(p, res)
	return res
}
