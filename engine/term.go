package main

import (
	"fmt"
	"hash/maphash"
	"strings"
	"sync"
)

// Term is an SMT term; W==0 means Bool, otherwise bit-vector width.
// Terms are hash-consed (pointer equality == structural equality); the
// intern table is sharded and safe for concurrent workers.
type Term struct {
	Op   string
	W    int
	Args []*Term
	Name string
	Val  uint64
	str  string
	vars []*Term // sorted set of variables occurring (nil for const)
}

const internShards = 64

type internShard struct {
	sync.Mutex
	m map[string]*Term
}

var (
	internSeed = maphash.MakeSeed()
	internTab  = func() *[internShards]internShard {
		var t [internShards]internShard
		for i := range t {
			t[i].m = map[string]*Term{}
		}
		return &t
	}()
)

func mk(op string, w int, name string, val uint64, args ...*Term) *Term {
	var sb strings.Builder
	switch op {
	case "var":
		sb.WriteString(name)
	case "const":
		if w == 0 {
			if val != 0 {
				sb.WriteString("true")
			} else {
				sb.WriteString("false")
			}
		} else {
			fmt.Fprintf(&sb, "(_ bv%d %d)", val&mask(w), w)
		}
	case "zext":
		fmt.Fprintf(&sb, "((_ zero_extend %d) %s)", val, args[0].str)
	case "sext":
		fmt.Fprintf(&sb, "((_ sign_extend %d) %s)", val, args[0].str)
	case "extract":
		fmt.Fprintf(&sb, "((_ extract %d 0) %s)", val, args[0].str)
	case "uf":
		sb.WriteString("(" + name)
		for _, a := range args {
			sb.WriteString(" " + a.str)
		}
		sb.WriteString(")")
	default:
		sb.WriteString("(" + op)
		for _, a := range args {
			sb.WriteString(" " + a.str)
		}
		sb.WriteString(")")
	}
	s := sb.String()
	sh := &internTab[maphash.String(internSeed, s)%internShards]
	sh.Lock()
	if t, ok := sh.m[s]; ok {
		sh.Unlock()
		return t
	}
	t := &Term{Op: op, W: w, Args: args, Name: name, Val: val, str: s}
	if op == "var" {
		t.vars = []*Term{t}
	} else {
		for _, a := range args {
			t.vars = mergeVars(t.vars, a.vars)
		}
	}
	sh.m[s] = t
	sh.Unlock()
	return t
}

func mergeVars(a, b []*Term) []*Term {
	if len(b) == 0 {
		return a
	}
	if len(a) == 0 {
		return b
	}
	out := make([]*Term, 0, len(a)+len(b))
	i, j := 0, 0
	for i < len(a) && j < len(b) {
		switch {
		case a[i] == b[j]:
			out = append(out, a[i])
			i++
			j++
		case a[i].Name < b[j].Name:
			out = append(out, a[i])
			i++
		default:
			out = append(out, b[j])
			j++
		}
	}
	out = append(out, a[i:]...)
	out = append(out, b[j:]...)
	return out
}

func mask(w int) uint64 {
	if w >= 64 {
		return ^uint64(0)
	}
	return (uint64(1) << uint(w)) - 1
}

var tTrue = mk("const", 0, "", 1)
var tFalse = mk("const", 0, "", 0)

func bvConst(v uint64, w int) *Term  { return mk("const", w, "", v&mask(w)) }
func bvVar(name string, w int) *Term { return mk("var", w, name, 0) }

func tNot(a *Term) *Term {
	if a == tTrue {
		return tFalse
	}
	if a == tFalse {
		return tTrue
	}
	if a.Op == "not" {
		return a.Args[0]
	}
	return mk("not", 0, "", 0, a)
}
func tAnd(as ...*Term) *Term {
	var out []*Term
	for _, a := range as {
		if a == tFalse {
			return tFalse
		}
		if a == tTrue {
			continue
		}
		if a.Op == "and" {
			out = append(out, a.Args...)
			continue
		}
		out = append(out, a)
	}
	if len(out) == 0 {
		return tTrue
	}
	if len(out) == 1 {
		return out[0]
	}
	return mk("and", 0, "", 0, out...)
}
func tOr(as ...*Term) *Term {
	var out []*Term
	for _, a := range as {
		if a == tTrue {
			return tTrue
		}
		if a == tFalse {
			continue
		}
		out = append(out, a)
	}
	if len(out) == 0 {
		return tFalse
	}
	if len(out) == 1 {
		return out[0]
	}
	return mk("or", 0, "", 0, out...)
}
func tEq(a, b *Term) *Term {
	if a == b {
		return tTrue
	}
	if a.Op == "const" && b.Op == "const" {
		if a.Val == b.Val {
			return tTrue
		}
		return tFalse
	}
	if a.W != b.W {
		panic(engineErr{fmt.Sprintf("tEq width mismatch %s %s", a.str, b.str)})
	}
	return mk("=", 0, "", 0, a, b)
}
func tIte(c, a, b *Term) *Term {
	if c == tTrue {
		return a
	}
	if c == tFalse {
		return b
	}
	if a == b {
		return a
	}
	return mk("ite", a.W, "", 0, c, a, b)
}
func tBin(op string, w int, a, b *Term) *Term {
	if a.Op == "const" && b.Op == "const" {
		if v, ok := evalBin(op, a.W, a.Val, b.Val); ok {
			if w == 0 {
				if v != 0 {
					return tTrue
				}
				return tFalse
			}
			return bvConst(v, w)
		}
	}
	return mk(op, w, "", 0, a, b)
}

func sx(v uint64, w int) int64 {
	if w >= 64 {
		return int64(v)
	}
	v &= mask(w)
	if v&(1<<uint(w-1)) != 0 {
		v |= ^mask(w)
	}
	return int64(v)
}

func b2u(b bool) uint64 {
	if b {
		return 1
	}
	return 0
}

// evalBin evaluates a binary bit-vector operator on constants of width w.
func evalBin(op string, w int, x, y uint64) (uint64, bool) {
	x &= mask(w)
	y &= mask(w)
	switch op {
	case "bvadd":
		return (x + y) & mask(w), true
	case "bvsub":
		return (x - y) & mask(w), true
	case "bvmul":
		return (x * y) & mask(w), true
	case "bvand":
		return x & y, true
	case "bvor":
		return x | y, true
	case "bvxor":
		return x ^ y, true
	case "bvudiv":
		if y == 0 {
			return mask(w), true
		}
		return x / y, true
	case "bvurem":
		if y == 0 {
			return x, true
		}
		return x % y, true
	case "bvshl":
		if y >= uint64(w) {
			return 0, true
		}
		return (x << y) & mask(w), true
	case "bvlshr":
		if y >= uint64(w) {
			return 0, true
		}
		return x >> y, true
	case "bvult":
		return b2u(x < y), true
	case "bvule":
		return b2u(x <= y), true
	case "bvugt":
		return b2u(x > y), true
	case "bvuge":
		return b2u(x >= y), true
	case "bvslt":
		return b2u(sx(x, w) < sx(y, w)), true
	case "bvsle":
		return b2u(sx(x, w) <= sx(y, w)), true
	case "bvsgt":
		return b2u(sx(x, w) > sx(y, w)), true
	case "bvsge":
		return b2u(sx(x, w) >= sx(y, w)), true
	}
	return 0, false
}

// eval evaluates t under an assignment of variables (by name). ok=false when
// a variable is unassigned or an uninterpreted function occurs.
func (t *Term) eval(env map[string]uint64) (uint64, bool) {
	switch t.Op {
	case "const":
		return t.Val, true
	case "var":
		v, ok := env[t.Name]
		return v & maskB(t.W), ok
	case "not":
		a, ok := t.Args[0].eval(env)
		return b2u(a == 0), ok
	case "and":
		for _, x := range t.Args {
			a, ok := x.eval(env)
			if !ok {
				return 0, false
			}
			if a == 0 {
				return 0, true
			}
		}
		return 1, true
	case "or":
		for _, x := range t.Args {
			a, ok := x.eval(env)
			if !ok {
				return 0, false
			}
			if a != 0 {
				return 1, true
			}
		}
		return 0, true
	case "=":
		a, ok1 := t.Args[0].eval(env)
		b, ok2 := t.Args[1].eval(env)
		return b2u(a == b), ok1 && ok2
	case "ite":
		c, ok := t.Args[0].eval(env)
		if !ok {
			return 0, false
		}
		if c != 0 {
			return t.Args[1].eval(env)
		}
		return t.Args[2].eval(env)
	case "zext":
		return t.Args[0].eval(env)
	case "sext":
		a, ok := t.Args[0].eval(env)
		return uint64(sx(a, t.Args[0].W)) & mask(t.W), ok
	case "extract":
		a, ok := t.Args[0].eval(env)
		return a & mask(t.W), ok
	case "bvneg":
		a, ok := t.Args[0].eval(env)
		return (-a) & mask(t.W), ok
	case "bvnot":
		a, ok := t.Args[0].eval(env)
		return (^a) & mask(t.W), ok
	case "uf":
		return 0, false
	}
	if len(t.Args) == 2 {
		a, ok1 := t.Args[0].eval(env)
		b, ok2 := t.Args[1].eval(env)
		if ok1 && ok2 {
			if v, ok := evalBin(t.Op, t.Args[0].W, a, b); ok {
				return v, true
			}
		}
	}
	return 0, false
}

func maskB(w int) uint64 {
	if w == 0 {
		return 1
	}
	return mask(w)
}

// ---- byte domains (syntactic pre-filter in front of the solver) ----

type bset [4]uint64

func (b *bset) has(i int) bool { return b[i>>6]&(1<<uint(i&63)) != 0 }
func (b *bset) set(i int)      { b[i>>6] |= 1 << uint(i&63) }
func (b bset) and(c bset) bset { return bset{b[0] & c[0], b[1] & c[1], b[2] & c[2], b[3] & c[3]} }
func (b bset) empty() bool     { return b[0]|b[1]|b[2]|b[3] == 0 }

var fullSet = bset{^uint64(0), ^uint64(0), ^uint64(0), ^uint64(0)}

var unaryCache sync.Map // *Term -> bset

// unarySet returns the set of byte values of the single 8-bit variable of t
// for which t is true. ok=false if t is not a unary constraint over a byte.
func unarySet(t *Term) (v *Term, s bset, ok bool) {
	if len(t.vars) != 1 || t.vars[0].W != 8 {
		return nil, s, false
	}
	v = t.vars[0]
	if c, hit := unaryCache.Load(t); hit {
		if c == nil {
			return nil, s, false
		}
		return v, c.(bset), true
	}
	env := map[string]uint64{}
	for i := 0; i < 256; i++ {
		env[v.Name] = uint64(i)
		r, ok := t.eval(env)
		if !ok {
			unaryCache.Store(t, nil)
			return nil, s, false
		}
		if r != 0 {
			s.set(i)
		}
	}
	unaryCache.Store(t, s)
	return v, s, true
}
